#!/usr/bin/env python3
"""Writes engine/coop_baseline.json: the functions and methods defined in /repo's pynenc and pynmon packages (module:qualname) at the
commit the checks were built against. coop.yieldify uses it for one thing only: a function that a twin calls and that is NOT in this
list (a helper extracted by a later change) is rewritten into a twin as well, so that extracting code into a new helper does not make
that code atomic in the simulations. On the tree the list was generated from this changes nothing."""
import ast, json, os, subprocess, sys
ROOT = "/repo"
out = {}
for pkg in ("pynenc", "pynmon"):
    for d, _, files in os.walk(os.path.join(ROOT, pkg)):
        for f in files:
            if not f.endswith(".py"):
                continue
            path = os.path.join(d, f)
            mod = os.path.relpath(path, ROOT)[:-3].replace(os.sep, ".")
            if mod.endswith(".__init__"):
                mod = mod[:-9]
            tree = ast.parse(open(path).read())
            def walk(node, prefix):
                for ch in ast.iter_child_nodes(node):
                    if isinstance(ch, (ast.FunctionDef, ast.AsyncFunctionDef)):
                        out.setdefault(mod, []).append(prefix + ch.name)
                        walk(ch, prefix + ch.name + ".<locals>.")
                    elif isinstance(ch, ast.ClassDef):
                        walk(ch, prefix + ch.name + ".")
            walk(tree, "")
commit = subprocess.check_output(["git", "-C", ROOT, "rev-parse", "--short", "HEAD"], text=True).strip()
dirty = subprocess.check_output(["git", "-C", ROOT, "status", "--porcelain", "--", "pynenc", "pynmon"], text=True).strip()
if dirty:
    print("refusing: /repo has uncommitted changes", file=sys.stderr); sys.exit(1)
json.dump({"commit": commit, "defined": {k: sorted(v) for k, v in sorted(out.items())}}, open("/verif/engine/coop_baseline.json", "w"), indent=0)
print(commit, sum(len(v) for v in out.values()), "functions")
