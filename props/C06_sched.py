"""C06 part 2 (SCHED): two runners polling and starting at the same time (line / SQL-statement granularity).

Each runner actor runs the real get_invocations_to_run(1) twin and then the real DistributedInvocation.run twin
(body holds the invocation RUNNING). Symbolic: first actor and two preemption points.
 * same key (TASK mode), two queued invocations: the candidate check and the authorisation check are both
   check-then-act across runners -> two RUNNING with the same key is expected (known finding, keyed);
 * different keys (KEYS mode, different key values): both must end RUNNING, neither blocks the other (verify).
"""

import re

from engine.core import Cond, Ctx

SRC = r'''
from engine.hsupport import *
from engine import standins, coop
from pynenc.invocation.status import InvocationStatus as St
from pynenc.invocation.dist_invocation import DistributedInvocation
from pynenc.conf.config_task import ConcurrencyControlType as CC
import pynenc.orchestrator.mem_orchestrator as mo, pynenc.orchestrator.sqlite_orchestrator as so
import pynenc.orchestrator.base_orchestrator as bo
import pynenc.broker.mem_broker as mb, pynenc.broker.sqlite_broker as sb
standins.install_sync_history()
standins.patch_clock(standins.CounterClock(1_700_000_000.0), mo, so)
LAST_DETAIL = None

class Hold(BaseException):
    pass

def work(k1: str, other: int = 0) -> int:
    raise Hold()

BASE = ["get_invocations_to_run", "get_blocking_invocations_to_run", "get_additional_invocations_to_run", "reroute_invocations", "set_invocation_status"]
MEM_NAMES = ["_atomic_status_transition", "_get_invocation_lock", "_interanl_atomic_status_transition"]
ALL = set(BASE + MEM_NAMES + ["retrieve_invocation", "route_invocation", "send_message", "run"])
GEN = {"get_invocations_to_run", "get_blocking_invocations_to_run", "get_additional_invocations_to_run"}
mo.threading = coop.CoopThreading()
coop.install_sqlite_standin()
coop.yieldify(bo.BaseOrchestrator, BASE, all_names=ALL, gen_names=GEN)
coop.yieldify(mo.MemOrchestrator, MEM_NAMES, all_names=ALL, gen_names=GEN)
coop.yieldify(mb.MemBroker, ["retrieve_invocation", "route_invocation"], all_names=ALL, gen_names=GEN)
coop.yieldify(so.SQLiteOrchestrator, ["_atomic_status_transition"], all_names=ALL, gen_names=GEN, sql=True)
coop.yieldify(sb.SQLiteBroker, ["retrieve_invocation", "route_invocation", "send_message"], all_names=ALL, gen_names=GEN, sql=True)
coop.yieldify(DistributedInvocation, ["run"], all_names=ALL, gen_names=GEN)

def two_runners(kind, same_key, first, slices):
    global LAST_DETAIL
    reset_uuid()
    app = mk_app(kind, app_id="c06s" + kind, cached_status_time=0.0)
    mode = CC.TASK if same_key else CC.KEYS
    opts = {"running_concurrency": mode}
    if not same_key:
        opts["key_arguments"] = ("k1",)
    task = app.task(**opts)(work); warm_task(task)
    a = task("a", 0)
    b = task("a" if same_key else "x", 1)
    ids = [a.invocation_id, b.invocation_id]
    o = app.orchestrator
    def actor(ctx):
        got = []
        for ev in o.get_invocations_to_run__gen(1, ctx):
            if ev[0] == "O":
                got.append(ev[1])
            else:
                yield ev
        for inv in got:
            try:
                yield from inv.run__gen(ctx)
            except Hold:
                pass
    actors = [coop.Actor(f"r{i+1}", actor(runner_ctx(f"r{i+1}"))) for i in range(2)]
    res = coop.run_schedule(actors, first, slices)
    coop.close_all_connections()
    st = [o.get_invocation_status(i) for i in ids]
    errs = [repr(x.error) for x in actors if x.error is not None]
    n_running = sum(1 for s in st if s == St.RUNNING)
    why = None
    if errs or res["deadlock"]:
        why = "C06:two-runners:poll-or-start-raised" if errs else "C06:two-runners:deadlock"
    elif same_key and n_running > 1:
        why = "C06:two-runners-simultaneous-check-then-act:two-running-same-key"
    elif not same_key and n_running != 2:
        why = "C06:two-runners:different-keys-blocked-each-other"
    LAST_DETAIL = {"kind": kind, "same_key": same_key, "statuses": [s.value for s in st], "errors": errs, "schedule": res["schedule"], "why": why}
    return why is None

def parent_task(x: int = 0) -> int:
    return x

def one_runner(kind, n_awaited, n_plain, limit, first, slices):
    """ONE runner with several worker threads: a single poll (limit 1-3) over same-key invocations, some of them awaited by a
    running parent (offered through the blocking list), the rest plain queue entries; every invocation the poll hands out is
    started by its own worker thread (real run twins, interleaved). Never two RUNNING."""
    global LAST_DETAIL
    reset_uuid()
    app = mk_app(kind, app_id="c06o" + kind, cached_status_time=0.0)
    task = app.task(running_concurrency=CC.TASK)(work); warm_task(task)
    ptask = app.task(parent_task); warm_task(ptask)
    o = app.orchestrator
    ctx = runner_ctx("r1"); other = runner_ctx("r2")
    invs = [task("a", i) for i in range(n_awaited + n_plain)]
    ids = [i.invocation_id for i in invs]
    if n_awaited:
        p = ptask(1)
        while True:
            x = app.broker.retrieve_invocation()
            if x is None:
                break
        for iid in ids[n_awaited:]:
            app.broker.route_invocation(iid)
        for st in (St.PENDING, St.RUNNING):
            o.set_invocation_status(p.invocation_id, st, other)
        o.waiting_for_results(p.invocation_id, ids[:n_awaited])
    got = list(o.get_invocations_to_run(limit, ctx))
    handed = [g.invocation_id for g in got]
    def worker(inv):
        try:
            yield from inv.run__gen(ctx)
        except Hold:
            pass
    actors = [coop.Actor(f"thread{i}", worker(g)) for i, g in enumerate(got)]
    # the schedule only matters when the poll handed out more than one invocation (on a correct poll it never does for one key)
    res = coop.run_schedule(actors, first, slices) if len(actors) > 1 else (coop.run_schedule(actors, 0, []) if actors else {"deadlock": False, "schedule": []})
    coop.close_all_connections()
    st = [o.get_invocation_status(i) for i in ids]
    errs = [repr(x.error) for x in actors if x.error is not None]
    n_running = sum(1 for s_ in st if s_ == St.RUNNING)
    why = None
    if errs or res["deadlock"]:
        why = "C06:one-runner:start-raised-or-deadlock"
    elif n_running > 1:
        why = "C06:one-runner-two-threads:two-running-same-key"
    elif ids and n_running == 0 and limit >= 1:
        why = "C06:one-runner:nothing-runs"
    LAST_DETAIL = {"kind": kind, "awaited": n_awaited, "plain": n_plain, "limit": limit, "handed_out": [x[-4:] for x in handed],
                   "statuses": [s_.value for s_ in st], "errors": errs, "schedule": res["schedule"], "why": why}
    return why is None

def one_runner___KIND__(n_awaited: int, n_plain: int, limit: int, first: int, k1: int, k2: int) -> bool:
    """
    pre: 0 <= n_awaited <= 2 and 0 <= n_plain <= 2 and 1 <= limit <= 3 and 0 <= first <= 1 and 0 <= k1 <= OKMAX and 0 <= k2 <= OKMAX
    post: _
    """
    n_awaited = pick(n_awaited, 0, 2); n_plain = pick(n_plain, 0, 2); limit = pick(limit, 1, 3)
    if n_awaited + n_plain == 0:
        return True
    with NoTracing():
        return two_runners_guard(lambda: one_runner(["mem", "sqlite"][__KIND__], n_awaited, n_plain, limit, first, [k1, k2]))

def two_runners_guard(fn):
    return fn()

def diff_keys___KIND__(k1: int, k2: int) -> bool:
    """
    pre: 0 <= k1 <= KMAX and 0 <= k2 <= K2MAX
    post: _
    """
    with NoTracing():
        return two_runners(["mem", "sqlite"][__KIND__], False, 0, [k1, k2] if K2MAX else [k1])

def finding_same_key___KIND_____LO__(k1: int, k2: int) -> bool:
    """
    pre: __LO__ <= k1 <= __HI__ and 0 <= k2 <= KMAX
    post: _
    """
    with NoTracing():
        return two_runners(["mem", "sqlite"][__KIND__], True, 0, [k1, k2])
'''


def _key_from_replay(args, kwargs, replay_out):
    m = re.search(r"'why': '([^']+)'", replay_out or "")
    return m.group(1) if m else "C06:unclassified"


def run(ctx: Ctx) -> None:
    thorough = ctx.tier == "thorough"
    kmax = 70
    k2max = kmax if thorough else 0
    key = "C06:two-runners-simultaneous-check-then-act:two-running-same-key"
    what = ("two runners poll and start two same-key invocations at the same time: both candidate checks (and both authorisation checks) "
            "happen before either write, both invocations reach RUNNING")
    for kind, name in ((0, "mem"), (1, "sqlite")):
        base, rest = SRC.split("def finding_same_key___KIND_____LO__")
        fsrc = "def finding_same_key___KIND_____LO__" + rest
        src = base
        conds = [Cond(f"diff_keys_{kind}", "confirm", 3000, keyfn=_key_from_replay), Cond(f"one_runner_{kind}", "confirm", 3000, keyfn=_key_from_replay)]
        if kind == 0 or thorough:
            for lo in range(0, kmax + 1, 18):
                src += fsrc.replace("__LO__", str(lo)).replace("__HI__", str(min(kmax, lo + 17)))
                conds.append(Cond(f"finding_same_key_{kind}_{lo}", "finding", 1500, key=key, keyfn=_key_from_replay, what=what))
        src = src.replace("__KIND__", str(kind)).replace("OKMAX", "35").replace("K2MAX", str(k2max)).replace("KMAX", str(kmax))
        ctx.ch_batch(f"c06sched_{name}", src, conds)
    ctx.bounds["two runners"] = (f"2 runner actors (real poll twin + real run twin): same key (TASK) - 2 preemptions, slices 0..{kmax} "
                                 f"({'both backends' if thorough else 'in-memory stack'}); different keys (KEYS) - {'2 preemptions' if thorough else '1 preemption'}, both backends")
    ctx.bounds["one runner, several worker threads"] = ("same key (TASK): 0-2 invocations awaited by a running parent (blocking list) + 0-2 plain queue entries, one poll with limit 1-3, "
                                                        "every invocation handed out is started by its own worker thread (run twins, first actor + 2 preemptions 0..35); both backends")
    ctx.functions_encoded += ["BaseOrchestrator.get_invocations_to_run twins + DistributedInvocation.run twin, two interleaved runners"]
