"""C06 part 2 (SCHED): two runners polling and starting at the same time (line / SQL-statement granularity).

Each runner actor runs the real get_invocations_to_run(1) twin and then the real DistributedInvocation.run twin
(body holds the invocation RUNNING). Symbolic: first actor and two preemption points.
 * same key (TASK mode), two queued invocations: the candidate check and the authorisation check are both
   check-then-act across runners -> two RUNNING with the same key is expected (known finding, keyed);
 * different keys (KEYS mode, different key values): both must end RUNNING, neither blocks the other (verify).
"""

import re

from engine.core import Cond, Ctx

SRC = r'''
from engine.hsupport import *
from engine import standins, coop
from pynenc.invocation.status import InvocationStatus as St
from pynenc.invocation.dist_invocation import DistributedInvocation
from pynenc.conf.config_task import ConcurrencyControlType as CC
import pynenc.orchestrator.mem_orchestrator as mo, pynenc.orchestrator.sqlite_orchestrator as so
import pynenc.orchestrator.base_orchestrator as bo
import pynenc.broker.mem_broker as mb, pynenc.broker.sqlite_broker as sb
standins.install_sync_history()
standins.patch_clock(standins.CounterClock(1_700_000_000.0), mo, so)
LAST_DETAIL = None

class Hold(BaseException):
    pass

def work(k1: str, other: int = 0) -> int:
    raise Hold()

BASE = ["get_invocations_to_run", "get_blocking_invocations_to_run", "get_additional_invocations_to_run", "reroute_invocations", "set_invocation_status"]
MEM_NAMES = ["_atomic_status_transition", "_get_invocation_lock", "_interanl_atomic_status_transition"]
ALL = set(BASE + MEM_NAMES + ["retrieve_invocation", "route_invocation", "send_message", "run"])
GEN = {"get_invocations_to_run", "get_blocking_invocations_to_run", "get_additional_invocations_to_run"}
mo.threading = coop.CoopThreading()
coop.install_sqlite_standin()
coop.yieldify(bo.BaseOrchestrator, BASE, all_names=ALL, gen_names=GEN)
coop.yieldify(mo.MemOrchestrator, MEM_NAMES, all_names=ALL, gen_names=GEN)
coop.yieldify(mb.MemBroker, ["retrieve_invocation", "route_invocation"], all_names=ALL, gen_names=GEN)
coop.yieldify(so.SQLiteOrchestrator, ["_atomic_status_transition"], all_names=ALL, gen_names=GEN, sql=True)
coop.yieldify(sb.SQLiteBroker, ["retrieve_invocation", "route_invocation", "send_message"], all_names=ALL, gen_names=GEN, sql=True)
coop.yieldify(DistributedInvocation, ["run"], all_names=ALL, gen_names=GEN)

def two_runners(kind, same_key, first, slices):
    global LAST_DETAIL
    reset_uuid()
    app = mk_app(kind, app_id="c06s" + kind, cached_status_time=0.0)
    mode = CC.TASK if same_key else CC.KEYS
    opts = {"running_concurrency": mode}
    if not same_key:
        opts["key_arguments"] = ("k1",)
    task = app.task(**opts)(work); warm_task(task)
    a = task("a", 0)
    b = task("a" if same_key else "x", 1)
    ids = [a.invocation_id, b.invocation_id]
    o = app.orchestrator
    def actor(ctx):
        got = []
        for ev in o.get_invocations_to_run__gen(1, ctx):
            if ev[0] == "O":
                got.append(ev[1])
            else:
                yield ev
        for inv in got:
            try:
                yield from inv.run__gen(ctx)
            except Hold:
                pass
    actors = [coop.Actor(f"r{i+1}", actor(runner_ctx(f"r{i+1}"))) for i in range(2)]
    res = coop.run_schedule(actors, first, slices)
    coop.close_all_connections()
    st = [o.get_invocation_status(i) for i in ids]
    errs = [repr(x.error) for x in actors if x.error is not None]
    n_running = sum(1 for s in st if s == St.RUNNING)
    why = None
    if errs or res["deadlock"]:
        why = "C06:two-runners:poll-or-start-raised" if errs else "C06:two-runners:deadlock"
    elif same_key and n_running > 1:
        why = "C06:two-runners-simultaneous-check-then-act:two-running-same-key"
    elif not same_key and n_running != 2:
        why = "C06:two-runners:different-keys-blocked-each-other"
    LAST_DETAIL = {"kind": kind, "same_key": same_key, "statuses": [s.value for s in st], "errors": errs, "schedule": res["schedule"], "why": why}
    return why is None

def diff_keys___KIND__(k1: int, k2: int) -> bool:
    """
    pre: 0 <= k1 <= KMAX and 0 <= k2 <= K2MAX
    post: _
    """
    with NoTracing():
        return two_runners(["mem", "sqlite"][__KIND__], False, 0, [k1, k2] if K2MAX else [k1])

def finding_same_key___KIND_____LO__(k1: int, k2: int) -> bool:
    """
    pre: __LO__ <= k1 <= __HI__ and 0 <= k2 <= KMAX
    post: _
    """
    with NoTracing():
        return two_runners(["mem", "sqlite"][__KIND__], True, 0, [k1, k2])
'''


def _key_from_replay(args, kwargs, replay_out):
    m = re.search(r"'why': '([^']+)'", replay_out or "")
    return m.group(1) if m else "C06:unclassified"


def run(ctx: Ctx) -> None:
    thorough = ctx.tier == "thorough"
    kmax = 70
    k2max = kmax if thorough else 0
    key = "C06:two-runners-simultaneous-check-then-act:two-running-same-key"
    what = ("two runners poll and start two same-key invocations at the same time: both candidate checks (and both authorisation checks) "
            "happen before either write, both invocations reach RUNNING")
    for kind, name in ((0, "mem"), (1, "sqlite")):
        base, rest = SRC.split("def finding_same_key___KIND_____LO__")
        fsrc = "def finding_same_key___KIND_____LO__" + rest
        src = base
        conds = [Cond(f"diff_keys_{kind}", "confirm", 3000, keyfn=_key_from_replay)]
        if kind == 0 or thorough:
            for lo in range(0, kmax + 1, 18):
                src += fsrc.replace("__LO__", str(lo)).replace("__HI__", str(min(kmax, lo + 17)))
                conds.append(Cond(f"finding_same_key_{kind}_{lo}", "finding", 1500, key=key, keyfn=_key_from_replay, what=what))
        src = src.replace("__KIND__", str(kind)).replace("K2MAX", str(k2max)).replace("KMAX", str(kmax))
        ctx.ch_batch(f"c06sched_{name}", src, conds)
    ctx.bounds["two runners"] = (f"2 runner actors (real poll twin + real run twin): same key (TASK) - 2 preemptions, slices 0..{kmax} "
                                 f"({'both backends' if thorough else 'in-memory stack'}); different keys (KEYS) - {'2 preemptions' if thorough else '1 preemption'}, both backends")
    ctx.functions_encoded += ["BaseOrchestrator.get_invocations_to_run twins + DistributedInvocation.run twin, two interleaved runners"]
