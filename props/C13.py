"""C13 — a satisfied trigger condition launches its task exactly once (DESIGN 3/C13).

Part 1 (SMT): cron rules — props/C13_cron.py.
Part 2 (CH; occurrence counts decided by the solver, real code run concretely): the real trigger_loop_iteration
on both trigger stores with the launch call recorded; single-condition, OR and AND triggers; 0-2 pending
occurrences per condition with distinct payloads; one or two iterations.
Part 3 (SCHED): two concurrent claimers of the same trigger run on both stores (line / SQL-statement granularity).
"""

import re

from engine.core import Cond, Ctx

OCC = r'''
from engine.hsupport import *
from engine import standins
from pynenc.trigger.trigger_builder import TriggerBuilder
standins.install_sync_history()
LAST_DETAIL = None

def args_from_event(ctx):
    return {"p": ctx.payload.get("n")}

def t_single(p: int = 0) -> int:
    return p
def t_or(p: int = 0) -> int:
    return p
def t_and() -> int:
    return 0

def world(kind):
    reset_uuid()
    app = mk_app(kind, app_id="c13" + kind)
    ts = app.task(triggers=TriggerBuilder().on_event("A").with_args_from_event(args_from_event))(t_single)
    to = app.task(triggers=TriggerBuilder().on_event("A").on_event("B").with_logic("or").with_args_from_event(args_from_event))(t_or)
    ta = app.task(triggers=TriggerBuilder().on_event("A").on_event("B").with_logic("and"))(t_and)
    for t in (ts, to, ta):
        warm_task(t)
    app.register_deferred_triggers()
    launches = []
    app.trigger.execute_task = lambda task_id, arguments=None: launches.append((task_id.func_name, (arguments or {}).get("p")))
    return app, launches

def scenario(kind, nA, nB, iters, late):
    """nA/nB occurrences of event A/B emitted before the first iteration; `late` more A occurrences between iterations"""
    global LAST_DETAIL
    app, launches = world(kind)
    pa = [1, 2][:nA]
    pb = [11, 12][:nB]
    for n in pa:
        app.trigger.emit_event("A", {"n": n})
    for n in pb:
        app.trigger.emit_event("B", {"n": n})
    app.trigger.trigger_loop_iteration()
    first = list(launches)
    if iters == 2:
        extra = [3][:late]
        for n in extra:
            app.trigger.emit_event("A", {"n": n})
        pa = pa + extra
        app.trigger.trigger_loop_iteration()
    got_single = sorted(p for (t, p) in launches if t == "t_single")
    got_or = sorted(p for (t, p) in launches if t == "t_or")
    n_and = sum(1 for (t, p) in launches if t == "t_and")
    def fail(why):
        global LAST_DETAIL
        LAST_DETAIL = {"kind": kind, "A": pa, "B": pb, "iterations": iters, "launches": launches, "why": why}
        return False
    if got_single != sorted(pa):
        return fail("C13:single-condition-trigger:" + ("occurrence-not-launched" if len(got_single) < len(pa) else "launched-twice" if len(got_single) > len(pa) else "wrong-arguments"))
    if got_or != sorted(pa + pb):
        return fail("C13:or-trigger:" + ("occurrence-not-launched" if len(got_or) < len(pa + pb) else "launched-twice" if len(got_or) > len(pa + pb) else "wrong-arguments"))
    if (len(pa) >= 1 and nB >= 1) != (n_and >= 1):
        return fail("C13:and-trigger:" + ("not-launched-with-all-conditions-pending" if n_and == 0 else "launched-without-all-conditions"))
    LAST_DETAIL = {"launches": launches}
    return True

def go(kind_i, nA, nB, iters, late):
    kind_i = pick(kind_i, 0, 1); nA = pick(nA, 0, 2); nB = pick(nB, 0, 2); iters = pick(iters, 1, 2); late = pick(late, 0, 1)
    with NoTracing():
        return scenario(["mem", "sqlite"][kind_i], nA, nB, iters, late)

def occurrences(kind_i: int, nA: int, nB: int, iters: int, late: int) -> bool:
    """
    pre: 0 <= kind_i <= 1 and 0 <= nA <= 2 and 0 <= nB <= 2 and 1 <= iters <= 2 and 0 <= late <= 1
    post: _
    """
    return go(kind_i, nA, nB, iters, late)

def occ_twin(kind_i: int, nA: int, nB: int) -> bool:
    """
    pre: 0 <= kind_i <= 1 and 0 <= nA <= 2 and 0 <= nB <= 2
    post: _
    """
    go(kind_i, nA, nB, 1, 0)
    return False
'''

OCC2 = r'''
from engine.hsupport import *
from engine import standins
from pynenc.invocation.status import InvocationStatus as St
from pynenc.trigger.trigger_builder import TriggerBuilder
standins.install_sync_history()
LAST_DETAIL = None

def src(x: int = 0) -> int:
    if x < 0:
        raise ValueError("negative", x)
    return x * 10

def d_reg(p: str = "") -> int:
    return 0
def d_succ(p: str = "") -> int:
    return 0
def d_res(p: int = 0) -> int:
    return 0
def d_exc(p: str = "") -> int:
    return 0

def args_by_invocation(ctx):
    return {"p": ctx.invocation_id}

def args_by_result(ctx):
    return {"p": ctx.result}

def world2(kind):
    reset_uuid()
    app = mk_app(kind, app_id="c13s" + kind)
    s = app.task(src)
    warm_task(s)
    by_inv = args_by_invocation
    deps = {
        "d_reg": app.task(triggers=TriggerBuilder().on_status(s, St.REGISTERED).with_args_from_status(by_inv))(d_reg),
        "d_succ": app.task(triggers=TriggerBuilder().on_status(s).with_args_from_status(by_inv))(d_succ),
        "d_res": app.task(triggers=TriggerBuilder().on_any_result(s).with_args_from_result(args_by_result))(d_res),
        "d_exc": app.task(triggers=TriggerBuilder().on_exception(s).with_args_from_exception(by_inv))(d_exc),
    }
    for t in deps.values():
        warm_task(t)
    app.register_deferred_triggers()
    launches = []
    app.trigger.execute_task = lambda task_id, arguments=None: launches.append((task_id.func_name, (arguments or {}).get("p")))
    return app, s, launches

def scenario2(kind, nsingle, nbatch, fail_mask, run_mask, iters):
    """occurrences produced by the real paths: single calls and a parallelize batch (status REGISTERED reported per call / per batch),
    then some invocations are executed (status changes, result or exception); 1-2 trigger loop iterations (the second one must add nothing)"""
    global LAST_DETAIL
    app, s, launches = world2(kind)
    xs = [(-(i + 1) if (fail_mask >> i) & 1 else i + 1) for i in range(nsingle + nbatch)]
    invs = [s(x) for x in xs[:nsingle]]
    if nbatch:
        invs += list(s.parallelize([(x,) for x in xs[nsingle:]]).invocations)
    ctx = runner_ctx("r1")
    ran = []
    for i, inv in enumerate(invs):
        if (run_mask >> i) & 1:
            app.orchestrator.set_invocation_status(inv.invocation_id, St.PENDING, ctx)
            obj = app.state_backend.get_invocation(inv.invocation_id)
            try:
                obj.run(ctx)
            except ValueError:
                pass
            ran.append(i)
    app.trigger.trigger_loop_iteration()
    n1 = len(launches)
    if iters == 2:
        app.trigger.trigger_loop_iteration()
    ids = [inv.invocation_id for inv in invs]
    exp = {
        "d_reg": sorted(ids),
        "d_succ": sorted(ids[i] for i in ran if xs[i] > 0),
        "d_res": sorted(xs[i] * 10 for i in ran if xs[i] > 0),
        "d_exc": sorted(ids[i] for i in ran if xs[i] < 0),
    }
    got = {k: sorted(p for (t, p) in launches if t == k) for k in exp}
    why = None
    for k in exp:
        if got[k] != exp[k]:
            kind_of = {"d_reg": "status-REGISTERED", "d_succ": "status-SUCCESS", "d_res": "result", "d_exc": "exception"}[k]
            why = "C13:" + kind_of + "-occurrence:" + ("not-launched" if len(got[k]) < len(exp[k]) else "launched-twice" if len(got[k]) > len(exp[k]) else "wrong-arguments")
            break
    if why is None and len(launches) != n1:
        why = "C13:second-iteration-launched-again"
    LAST_DETAIL = {"kind": kind, "singles": nsingle, "batch": nbatch, "xs": xs, "ran": ran, "iterations": iters,
                   "launch_counts": {k: len(v) for k, v in got.items()}, "expected_counts": {k: len(v) for k, v in exp.items()}, "why": why}
    return why is None

def status_occurrences___KIND_____NB__(nsingle: int, fail_mask: int, run_mask: int, iters: int) -> bool:
    """
    pre: 0 <= nsingle <= 2 and 0 <= fail_mask <= 7 and 0 <= run_mask <= 7 and 1 <= iters <= 2
    post: _
    """
    nbatch = __NB__
    nsingle = pick(nsingle, 0, 2); fail_mask = pick(fail_mask, 0, 7); run_mask = pick(run_mask, 0, 7); iters = pick(iters, 1, 2)
    with NoTracing():
        return scenario2(["mem", "sqlite"][__KIND__], nsingle, nbatch, fail_mask, run_mask, iters)
'''

OCC2X = r'''
def status_twin(nsingle: int, nbatch: int) -> bool:
    """
    pre: 0 <= nsingle <= 2 and 0 <= nbatch <= 3
    post: _
    """
    nsingle = pick(nsingle, 0, 2); nbatch = pick(nbatch, 0, 3)
    with NoTracing():
        scenario2("mem", nsingle, nbatch, 0, 1, 1)
    return False

def status_canary_batch_first_only(nbatch: int) -> bool:
    """
    pre: 2 <= nbatch <= 3
    post: _
    """
    # canary: a status report that records only the first invocation of a batch must be refuted
    import pynenc.trigger.base_trigger as bt
    orig = bt.BaseTrigger.report_tasks_status
    bt.BaseTrigger.report_tasks_status = lambda self, invocation_ids, status=None: orig(self, list(invocation_ids)[:1], status)
    nbatch = pick(nbatch, 2, 3)
    try:
        with NoTracing():
            return scenario2("mem", 0, nbatch, 0, 0, 1)
    finally:
        bt.BaseTrigger.report_tasks_status = orig
'''

CLAIM = r'''
from engine.hsupport import *
from engine import standins, coop
import pynenc.trigger.mem_trigger as mt
import pynenc.trigger.sqlite_trigger as st
standins.install_sync_history()
LAST_DETAIL = None
mt.threading = coop.CoopThreading(never_block=__NEVER__)
coop.install_sqlite_standin()
coop.yieldify(mt.MemTrigger, ["claim_trigger_run"])
coop.yieldify(st.SQLiteTrigger, ["claim_trigger_run"], sql=True)

def claimers(kind, first, slices):
    global LAST_DETAIL
    app = mk_app(kind, app_id="c13c" + kind)
    t = app.trigger
    actors = [coop.Actor(f"c{i}", t.claim_trigger_run__gen("run-1")) for i in range(2)]
    res = coop.run_schedule(actors, first, slices)
    coop.close_all_connections()
    got = [a.result for a in actors]
    errs = [repr(a.error) for a in actors if a.error is not None]
    LAST_DETAIL = {"kind": kind, "results": got, "errors": errs, "schedule": res["schedule"],
                   "why": "C13:claim_trigger_run:both-claimers-won:" + kind if got == [True, True] else None}
    return (not errs) and (not res["deadlock"]) and sorted(got, key=str) == [False, True]

def claim2___KIND__(first: int, k1: int, k2: int) -> bool:
    """
    pre: 0 <= first <= 1 and 0 <= k1 <= 12 and 0 <= k2 <= 12
    post: _
    """
    with NoTracing():
        return claimers(["mem", "sqlite"][__KIND__], first, [k1, k2])
'''


CRONRACE = r'''
from datetime import datetime, UTC
from engine.hsupport import *
from engine import standins, coop
import pynenc.trigger.base_trigger as bt
import pynenc.trigger.mem_trigger as mt
import pynenc.trigger.sqlite_trigger as st
from pynenc.trigger.conditions.cron import CronCondition
standins.install_sync_history()
LAST_DETAIL = None
ALL = {"_should_trigger_cron_condition", "get_last_cron_execution", "store_last_cron_execution"}
mt.threading = coop.CoopThreading()
coop.install_sqlite_standin()
coop.yieldify(bt.BaseTrigger, ["_should_trigger_cron_condition"], all_names=ALL)
coop.yieldify(mt.MemTrigger, ["get_last_cron_execution", "store_last_cron_execution"], all_names=ALL)
coop.yieldify(st.SQLiteTrigger, ["get_last_cron_execution", "store_last_cron_execution"], all_names=ALL, sql=True)

def first_tick(kind, has_last, first, slices, tolerate=()):
    """two trigger loops evaluate the same cron condition at the same scheduled instant"""
    global LAST_DETAIL
    reset_uuid()
    db = fresh_db_path("c13cron") if kind == "sqlite" else None
    apps = [mk_app(kind, app_id="c13cron", db_path=db)]
    apps.append(mk_app(kind, app_id="c13cron", db_path=db) if kind == "sqlite" else apps[0])   # two processes / two threads of one process
    cond = CronCondition("*/5 * * * *")
    for a in apps:
        a.trigger.register_condition(cond)
    now = datetime(2024, 1, 1, 12, 5, 0, tzinfo=UTC)
    if has_last:
        apps[0].trigger.store_last_cron_execution(cond.condition_id, datetime(2024, 1, 1, 12, 0, 0, tzinfo=UTC))
    actors = [coop.Actor(f"loop{i}", a.trigger._should_trigger_cron_condition__gen(cond, now)) for i, a in enumerate(apps)]
    res = coop.run_schedule(actors, first, slices)
    coop.close_all_connections()
    fired = [x.result is not None for x in actors]
    errs = [repr(x.error) for x in actors if x.error is not None]
    why = None
    if errs:
        why = "C13:cron:evaluation-raised"
    elif sum(fired) == 0:
        why = "C13:cron:tick-fired-by-nobody"
    elif sum(fired) == 2:
        why = "C13:cron:first-tick-fired-by-two-loops" if not has_last else "C13:cron:tick-fired-by-two-loops:" + kind
    LAST_DETAIL = {"kind": kind, "has_last_execution": has_last, "fired": fired, "errors": errs, "schedule": res["schedule"], "why": why}
    return why is None or why in tolerate

def cron_tick_with_last___KIND_____F__(first: int, k1: int, k2: int) -> bool:
    """
    pre: __F__ <= first <= __F__ and 0 <= k1 <= 40 and 0 <= k2 <= 40
    post: _
    """
    with NoTracing():
        return first_tick(["mem", "sqlite"][__KIND__], True, first, [k1, k2])

def first_tick_otherwise___KIND_____F__(first: int, k1: int, k2: int) -> bool:
    """
    pre: __F__ <= first <= __F__ and 0 <= k1 <= 40 and 0 <= k2 <= 40
    post: _
    """
    # the region of the listed finding, with exactly that outcome tolerated: nothing else may go wrong there
    with NoTracing():
        return first_tick(["mem", "sqlite"][__KIND__], False, first, [k1, k2], __TOL__)

def finding_first_tick___KIND__(first: int, k1: int, k2: int) -> bool:
    """
    pre: 0 <= first <= 1 and 0 <= k1 <= 40 and 0 <= k2 <= 40
    post: _
    """
    with NoTracing():
        return first_tick(["mem", "sqlite"][__KIND__], False, first, [k1, k2])
'''


def _key_from_replay(args, kwargs, replay_out):
    m = re.search(r"'why': '([^']+)'", replay_out or "")
    return m.group(1) if m else "C13:unclassified"


def run(ctx: Ctx) -> None:
    from props import C13_cron
    C13_cron.run(ctx)
    ctx.ch_batch("c13occ", OCC, [Cond("occurrences", "confirm", 900, keyfn=_key_from_replay), Cond("occ_twin", "refute", 60)])
    head2, f2 = OCC2.split("def status_occurrences___KIND_____NB__")
    f2 = "def status_occurrences___KIND_____NB__" + f2
    ssrc, sconds = head2, []
    for kind in (0, 1):
        for nb in range(4):
            ssrc += f2.replace("__KIND__", str(kind)).replace("__NB__", str(nb))
            sconds.append(Cond(f"status_occurrences_{kind}_{nb}", "confirm", 1500, keyfn=_key_from_replay))
    ctx.ch_batch("c13status", ssrc + OCC2X, sconds + [Cond("status_twin", "refute", 60), Cond("status_canary_batch_first_only", "refute", 120)])
    ctx.bounds["status / result / exception occurrences"] = ("0-2 single calls + a parallelize batch of 0-3 of one source task, any subset executed (success or ValueError), "
                                                             "triggers on status REGISTERED, status SUCCESS, any result, any exception with arguments from the occurrence; 1-2 loop iterations; both stores")
    for kind, name in ((0, "mem"), (1, "sqlite")):
        src = CLAIM.replace("__NEVER__", "False").replace("__KIND__", str(kind))
        ctx.ch_batch(f"c13claim_{name}", src, [Cond(f"claim2_{kind}", "confirm", 600, keyfn=_key_from_replay)])
    # canary: a store lock that never blocks must let both claimers win within the same bounds
    src = CLAIM.replace("__NEVER__", "True").replace("__KIND__", "0")
    ctx.ch_batch("c13claim_canary", src, [Cond("claim2_0", "refute", 300)])
    fk = "C13:cron:first-tick-fired-by-two-loops"
    tol = repr((fk,)) if ctx.known_status(fk) == "known" else "()"
    head, funcs = CRONRACE.split("def cron_tick_with_last___KIND__", 1)
    funcs = "def cron_tick_with_last___KIND__" + funcs
    rsrc, rconds = head, []
    ffind = "def finding_first_tick___KIND__" + funcs.split("def finding_first_tick___KIND__")[1]
    fsplit = funcs.split("def finding_first_tick___KIND__")[0]
    for kind, name in ((0, "mem"), (1, "sqlite")):
        for fst in (0, 1):
            rsrc += fsplit.replace("__KIND__", str(kind)).replace("__F__", str(fst)).replace("__TOL__", tol)
            rconds += [Cond(f"cron_tick_with_last_{kind}_{fst}", "confirm", 900, keyfn=_key_from_replay),
                       Cond(f"first_tick_otherwise_{kind}_{fst}", "confirm", 900, keyfn=_key_from_replay)]
        rsrc += ffind.replace("__KIND__", str(kind)).replace("__TOL__", tol)
        rconds += [
            Cond(f"finding_first_tick_{kind}", "finding", 600, key=fk, keyfn=_key_from_replay,
                 what="two trigger loops evaluate a cron condition that has never fired at the same scheduled instant: store_last_cron_execution(expected=None) is unconditional, both fire")]
    ctx.ch_batch("c13cronrace", rsrc, rconds)
    ctx.bounds["cron race"] = "2 concurrent evaluations of one cron condition at a scheduled instant, 2 preemptions with slices 0..40; with a previous execution on record (verify) and without (known finding); in-memory (two threads) and SQLite (two processes)"
    ctx.functions_encoded += ["BaseTrigger._should_trigger_cron_condition + Mem/SQLite get/store_last_cron_execution (line / statement-level twins)",
                              "BaseTrigger.trigger_loop_iteration/emit_event/record_valid_conditions/get_valid_conditions/clear_valid_conditions",
                              "TriggerDefinition.should_trigger/generate_trigger_run_ids/get_arguments", "ContextTypeArgumentProvider.get_arguments",
                              "MemTrigger/SQLiteTrigger.claim_trigger_run (line / statement-level twins)"]
    ctx.bounds["occurrences"] = "triggers: single condition (default logic), OR of two, AND of two; 0-2 pending occurrences per condition with distinct payloads; 1-2 loop iterations with an optional late occurrence; both stores"
    ctx.bounds["claims"] = "2 concurrent claimers of one trigger run id, 2 preemptions with slices 0..12, both stores"
    ctx.stubs += ["trigger.execute_task replaced by a recorder (the launch itself is C07/C03's subject)", "CoopLock for MemTrigger's locks, sqlite timeout=0"]
    ctx.assumptions += ["the first cron tick ever (no last execution stored) can be fired by two loops at once: listed known finding, reproduced by the cron-race part"]
