"""C09 — wait tracking exact (part 1, CH) and single-slot thread runner mechanisms (part 2).

Part 1: symbolic histories of wait declarations / claims / completions over 3 ids on the real
MemBlockingControl and SQLiteBlockingControl (through the orchestrator's public calls), compared
with a reference wait graph (set of edges) after every operation; plus an inductive step on the
in-memory structure from an arbitrary edge relation.
"""

from engine.core import Cond, Ctx

SRC = r'''
from engine.hsupport import *
from engine import standins
from pynenc.invocation.status import InvocationStatus as St
from pynenc.util.sqlite_utils import create_sqlite_connection
from collections import defaultdict, OrderedDict

standins.install_sync_history()
import pynenc.orchestrator.mem_orchestrator as _mo, pynenc.orchestrator.sqlite_orchestrator as _so
CLOCK = standins.CounterClock(1_600_000_000.0)
standins.patch_clock(CLOCK, _mo, _so)

def body() -> int:
    return 1

N = 3
# op alphabet: (kind, x, ys)
OPS = []
for x in range(N):
    for y in range(N):
        if x != y:
            OPS.append(("wait", x, (y,)))
for x in range(N):
    OPS.append(("wait", x, tuple(y for y in range(N) if y != x)))
for y in range(N):
    OPS.append(("finish", y, ()))
for y in range(N):
    OPS.append(("claim", y, ()))
NOPS = len(OPS)  # 15

def world(kind):
    with NoTracing():
        reset_uuid()
        app = mk_app(kind, app_id="c09" + kind)
        task = app.task(body)
        warm_task(task)
        invs = new_invocations(app, task, N)
        return app, [i.invocation_id for i in invs]

R1 = None
def rctx():
    global R1
    if R1 is None:
        R1 = runner_ctx("r1")
    return R1

class Ref:
    """reference wait graph: a set of (waiter, waited) edges + a status per id"""
    def __init__(self):
        self.E = set()
        self.st = ["registered"] * N
    def wait(self, x, ys):
        if self.st[x] in ("success",):
            return False
        ys = [y for y in ys if self.st[y] != "success"]
        if not ys:
            return False
        for y in ys:
            self.E.add((x, y))
        return ys
    def finish(self, y):
        self.st[y] = "success"
        self.E = {(a, b) for (a, b) in self.E if b != y}
    def claim(self, y):
        if self.st[y] == "registered":
            self.st[y] = "pending"
    def blocking(self):
        waited = {b for (_, b) in self.E}
        waiters = {a for (a, _) in self.E}
        return {y for y in waited if y not in waiters and self.st[y] == "registered"}

def do_finish(app, iid):
    o = app.orchestrator
    s = o.get_invocation_status(iid)
    if s == St.REGISTERED:
        o.set_invocation_status(iid, St.PENDING, rctx())
        s = St.PENDING
    if s == St.PENDING:
        o.set_invocation_status(iid, St.RUNNING, rctx())
        s = St.RUNNING
    if s == St.RUNNING:
        o.set_invocation_status(iid, St.SUCCESS, rctx())

def recorded_waited_ids(app, kind):
    """ids that something is still recorded as waiting on"""
    bc = app.orchestrator.blocking_control
    with NoTracing():
        if kind == "mem":
            return {k for k, v in bc.waited_by.items() if v} | {w for s in bc.waiting_for.values() for w in s}
        with create_sqlite_connection(bc.sqlite_db_path) as conn:
            return {r[0] for r in conn.execute(f"SELECT waited_id FROM {bc.tables.BLOCKING_EDGES}").fetchall()}

def observe(app, ids, ref, kind, n_small):
    n_small = pick(n_small, 1, 2)
    o = app.orchestrator
    exp = {ids[y] for y in ref.blocking()}
    got_all = list(o.get_blocking_invocations(10))
    if len(got_all) != len(set(got_all)) or set(got_all) != exp:
        return False
    got_n = list(o.get_blocking_invocations(n_small))
    if len(got_n) != min(n_small, len(exp)) or not set(got_n) <= exp or len(set(got_n)) != len(got_n):
        return False
    fin = {ids[y] for y in range(N) if ref.st[y] == "success"}
    if recorded_waited_ids(app, kind) & fin:
        return False
    return True

def run_hist(kind, ops, n_small):
    app, ids = world(kind)
    ref = Ref()
    o = app.orchestrator
    for k in ops:
        op, x, ys = OPS[k]
        if op == "wait":
            eff = ref.wait(x, ys)
            if eff:
                o.waiting_for_results(ids[x], [ids[y] for y in eff])
        elif op == "finish":
            if ref.st[x] != "success":
                do_finish(app, ids[x])
                ref.finish(x)
        else:
            if ref.st[x] == "registered":
                o.set_invocation_status(ids[x], St.PENDING, rctx())
                ref.claim(x)
        if not observe(app, ids, ref, kind, n_small):
            return False
    return True

def both(ops, n_small):
    # the solver decides the op codes (forked to concrete values); the real methods then run concretely
    ops = [pick(o, 0, NOPS - 1) for o in ops]
    n_small = pick(n_small, 1, 2)
    with NoTracing():
        return run_hist("mem", ops, n_small) and run_hist("sqlite", ops, n_small)

# ---------------- inductive step on the in-memory structure -----------------
def induct(bits, k, n_small):
    """Pre-state: arbitrary edge relation over 3 ids (9 bits, no self edges used), all ids REGISTERED,
    materialised into waiting_for/waited_by with _ready DEFINED as the invariant; then one op."""
    bits = pick(bits, 0, 511); k = pick(k, 0, NOPS - 1); n_small = pick(n_small, 1, 2)
    with NoTracing():
        return _induct(bits, k, n_small)

def _induct(bits, k, n_small):
    app, ids = world("mem")
    bc = app.orchestrator.blocking_control
    ref = Ref()
    for x in range(N):
        for y in range(N):
            if x != y and (bits >> (x * N + y)) & 1:
                ref.E.add((x, y))
    bc.waiting_for = defaultdict(set)
    bc.waited_by = OrderedDict()
    for (x, y) in sorted(ref.E):
        bc.waiting_for[ids[x]].add(ids[y])
        if ids[y] not in bc.waited_by:
            bc.waited_by[ids[y]] = set()
        bc.waited_by[ids[y]].add(ids[x])
    bc._ready = {w for w in bc.waited_by if w not in bc.waiting_for}
    if not observe(app, ids, ref, "mem", n_small):
        return False
    return step_and_observe(app, ids, ref, k, n_small)

def step_and_observe(app, ids, ref, k, n_small):
    o = app.orchestrator
    op, x, ys = OPS[k]
    if op == "wait":
        eff = ref.wait(x, ys)
        if eff:
            o.waiting_for_results(ids[x], [ids[y] for y in eff])
    elif op == "finish":
        do_finish(app, ids[x]); ref.finish(x)
    else:
        o.set_invocation_status(ids[x], St.PENDING, rctx()); ref.claim(x)
    bc = o.blocking_control
    inv_ok = bc._ready == {w for w in bc.waited_by if bc.waited_by[w] and w not in bc.waiting_for} or \
             bc._ready == {w for w in bc.waited_by if w not in bc.waiting_for}
    return observe(app, ids, ref, "mem", n_small) and inv_ok
'''

H3 = r'''
def hist__K__(n: int, o2: int, o3: int, ns: int) -> bool:
    """
    pre: 1 <= n <= 3 and 1 <= ns <= 2
    pre: 0 <= o2 < NOPS and 0 <= o3 < NOPS
    post: _
    """
    return both([__K__, o2, o3][:n], ns)
'''

H4 = r'''
def hist4___K_____J__(o3: int, o4: int) -> bool:
    """
    pre: 0 <= o3 < NOPS and 0 <= o4 < NOPS
    post: _
    """
    return both([__K__, __J__, o3, o4], 1)
'''

IND = r'''
def induct__K__(bits: int, ns: int) -> bool:
    """
    pre: 0 <= bits < 512 and 1 <= ns <= 2
    post: _
    """
    return induct(bits, __K__, ns)
'''

EXTRA = r'''
def twin(o1: int, o2: int) -> bool:
    """
    pre: 0 <= o1 < NOPS and 0 <= o2 < NOPS
    post: _
    """
    both([o1, o2], 1)
    return False

def canary_no_release(o1: int, o2: int, o3: int) -> bool:
    """
    pre: 0 <= o1 < NOPS and 0 <= o2 < NOPS and 0 <= o3 < NOPS
    post: _
    """
    # wrong reference on purpose: completion does not remove edges -> must be refuted
    old = Ref.finish
    def bad(self, y):
        self.st[y] = "success"
    Ref.finish = bad
    try:
        ops = [pick(o, 0, NOPS - 1) for o in (o1, o2, o3)]
        with NoTracing():
            return run_hist("mem", ops, 2)
    finally:
        Ref.finish = old
'''


def run(ctx: Ctx) -> None:
    thorough = ctx.tier == "thorough"
    src = SRC
    conds = []
    for k in range(15):
        src += H3.replace("__K__", str(k))
        conds.append(Cond(f"hist{k}", "confirm", 900 if thorough else 300))
    for k in range(15):
        src += IND.replace("__K__", str(k))
        conds.append(Cond(f"induct{k}", "confirm", 900 if thorough else 300))
    if thorough:
        for k in range(15):
            for j in range(15):
                src += H4.replace("__K__", str(k)).replace("__J__", str(j))
                conds.append(Cond(f"hist4_{k}_{j}", "confirm", 1200))
    src += EXTRA
    conds += [Cond("twin", "refute", 60), Cond("canary_no_release", "refute", 200)]
    res = ctx.ch_batch("c09track", src, conds)
    ctx.functions_encoded += [
        "MemBlockingControl.waiting_for_results/release_waiters/get_blocking_invocations",
        "SQLiteBlockingControl.waiting_for_results/release_waiters/get_blocking_invocations",
        "BaseOrchestrator.waiting_for_results/get_blocking_invocations/set_invocation_status(release on final)",
    ]
    ctx.bounds["tracking"] = (
        "3 ids; histories of length <= 3 (thorough 4) over 15 ops (wait x->y, wait x->{others}, finish y, claim y); "
        "limit n in {1,2,10}; inductive step: all 2^9 edge relations x 15 ops on the in-memory structure")
    ctx.stubs += ["sync history threads", "counter clock in orchestrators", "fresh apps per path with deterministic uuid4 counter"]
    ctx.assumptions += [
        "callers never declare a wait on an already-final id or by a final id (DistributedInvocation.result / group.results check finality first)",
        "release happens only through set_invocation_status(final)",
    ]
    for nm in ("hist0", "induct12"):
        r = res.get(nm)
        if r:
            ctx.samples.append({"obligation": nm, "state": r.state, "paths": r.num_paths})
    from props import C09_runner, C09_sim
    C09_runner.run(ctx)
    C09_sim.run(ctx)
