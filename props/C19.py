"""C19 — sync development mode and distributed execution give the same outcome (DESIGN 3/C19).

CH (program shape decided by the solver; real code run concretely): a root task whose body follows a symbolic
per-attempt script (return / raise retriable / raise non-retriable), max_retries 0..3, optional children
(single result or parallelized group) with their own scripts, plain or direct-task flavour. Executed
(a) in sync mode through the real ConcurrentInvocation, (b) distributed on the in-memory stack and (c) on the
SQLite stack with a stand-in inline runner whose worker loop is the persistent-process worker's loop.
Compared: value / exception type+args, body execution counts, retry counts; plus the three retry laws.
"""

import re

from engine.core import Cond, Ctx

SRC = r'''
from engine.hsupport import *
from engine import standins
from pynenc.runner.base_runner import DummyRunner
from pynenc.exceptions import RetryError
import pynenc.orchestrator.mem_orchestrator as mo, pynenc.orchestrator.sqlite_orchestrator as so
standins.install_sync_history()
standins.patch_clock(standins.CounterClock(1_700_000_000.0), mo, so)
LAST_DETAIL = None
COUNT = {}
PLAN = {}
ACT = ["ok", "retry", "fail"]

def _step(name, key):
    COUNT[(name, key)] = COUNT.get((name, key), 0) + 1
    # the script is indexed by the attempt number of THIS invocation (a pure function of the invocation)
    n = PLAN["app"][name].invocation.num_retries + 1
    script = PLAN[name]
    act = script[min(n, len(script)) - 1]
    if act == 1:
        raise RetryError(f"{name} retry {n}")
    if act == 2:
        raise ValueError(f"{name} failed", n)
    return n

def leaf(x: int):
    _step("leaf", x)
    return None if PLAN.get("ret_none") else x * 10

def wleaf(b: int, x: int, w: int = 1):
    _step("wleaf", x)
    return None if PLAN.get("ret_none") else (b + x) * w

def root(x: int) -> int:
    n = _step("root", x)
    shape = PLAN["shape"]
    total = x
    APPX = PLAN["app"]
    if shape == 1:
        child = APPX["leaf"](1)
        r = child.result
        if PLAN.get("double_read"):
            r = child.result           # reading a result again must not execute the child again
        total += r or 0
    elif shape == 2:
        total += sum((v or 0) for v in APPX["leaf"].parallelize([(1,), (2,)]).results)
    elif shape == 3:
        # a group built from shared arguments plus per-call dictionaries that do not all name the same parameters
        g = APPX["wleaf"].parallelize([{"x": 1, "w": 3}, {"x": 2}, {"x": 3}], common_args={"b": 5})
        total += sum((v or 0) for v in g.results)
    if PLAN.get("ret_none") and shape == 0:
        return None
    return total

class InlineRunner(DummyRunner):
    """Stand-in runner: whenever anybody waits for a result, run one step of the persistent-process worker loop inline."""
    depth = 0
    def work_once(self):
        ctx = self.runner_context
        invs = list(self.app.orchestrator.get_invocations_to_run(1, ctx))
        for inv in invs:
            try:
                inv.run(ctx)
            except Exception:
                pass
        return bool(invs)
    def waiting_for_results(self, running_invocation_id, result_invocation_ids, runner_args=None):
        InlineRunner.depth += 1
        try:
            if InlineRunner.depth > 50:
                raise RuntimeError("inline runner recursion")
            self.work_once()
        finally:
            InlineRunner.depth -= 1
    def _waiting_for_results(self, running_invocation_id, result_invocation_ids, runner_args=None):
        self.work_once()

def execute(mode, shape, max_retries, root_script, leaf_script, direct, ret_none=False, double_read=False):
    """mode: 'sync' | 'mem' | 'sqlite'. Returns (outcome, counts, retries)"""
    reset_uuid()
    COUNT.clear()
    PLAN.clear()
    PLAN.update({"root": root_script, "leaf": leaf_script, "wleaf": leaf_script, "shape": shape, "ret_none": ret_none, "double_read": double_read})
    kind = "mem" if mode in ("sync", "mem") else "sqlite"
    app = mk_app(kind, app_id="c19" + mode, dev_mode_force_sync_tasks=(mode == "sync"), cached_status_time=0.0,
                 invocation_wait_results_sleep_time_sec=0.0)
    leaf_t = app.task(max_retries=1)(leaf)
    if direct:
        droot = app.direct_task(max_retries=max_retries)(root)
        root_t = droot.__pynenc_task__
    else:
        root_t = app.task(max_retries=max_retries)(root)
        droot = None
    wleaf_t = app.task(max_retries=1)(wleaf)
    warm_task(leaf_t); warm_task(root_t); warm_task(wleaf_t)
    PLAN["app"] = {"leaf": leaf_t, "root": root_t, "wleaf": wleaf_t}
    if mode != "sync":
        app.runner = InlineRunner(app)
        with NoTracing():
            app.runner.conf
    try:
        if direct:
            val = droot(5)
            retries = None
        else:
            inv = root_t(5)
            val = inv.result
            if double_read:
                val = inv.result       # a second read of the same result
            retries = inv.num_retries
        out = ("value", val)
    except Exception as e:
        out = ("raised", type(e).__name__, e.args)
        retries = None
    return out, dict(COUNT), retries

def program(shape, max_retries, r1, r2, r3, l1, l2, direct, ret_none=False, double_read=False):
    global LAST_DETAIL
    root_script = [r1, r2, r3, 0]
    leaf_script = [l1, l2, 0]
    res = {}
    for mode in ("sync", "mem", "sqlite"):
        res[mode] = execute(mode, shape, max_retries, root_script, leaf_script, direct, ret_none, double_read)
    def fail(why):
        global LAST_DETAIL
        LAST_DETAIL = {"shape": shape, "max_retries": max_retries, "root_script": [ACT[a] for a in root_script], "leaf_script": [ACT[a] for a in leaf_script],
                       "direct": direct, "results": {k: str(v) for k, v in res.items()}, "why": why}
        return False
    base = res["sync"]
    for mode in ("mem", "sqlite"):
        if res[mode][0] != base[0]:
            return fail(f"C19:outcome-differs:{mode}")
        # the root body count is always compared; children's counts only when the program succeeds (after a child
        # fails, sync mode never starts the later siblings while distributed mode has already queued them: the order
        # in which concurrent children run is unspecified)
        roots = lambda c: {k: v for k, v in c.items() if k[0] == "root"}
        if roots(res[mode][1]) != roots(base[1]):
            return fail(f"C19:root-body-execution-count-differs:{mode}")
        if base[0][0] == "value" and res[mode][1] != base[1]:
            return fail(f"C19:body-execution-count-differs:{mode}")
    # retry laws on the root (when no child aborts it differently they are visible in the counts)
    for mode in ("sync", "mem", "sqlite"):
        out, counts, retries = res[mode]
        n_root = counts.get(("root", 5), 0)
        first_non_retry = next((i + 1 for i, a in enumerate(root_script) if a != 1), 4)
        if shape == 0:
            if first_non_retry <= max_retries + 1:
                exp_n = first_non_retry
                exp_out = ("value", None if ret_none else 5) if root_script[first_non_retry - 1] == 0 else ("raised", "ValueError", ("root failed", first_non_retry))
            else:
                exp_n = max_retries + 1
                exp_out = ("raised", "RetryError", (f"root retry {max_retries + 1}",))
            if n_root != exp_n:
                return fail(f"C19:retry-law-executions:{mode}:{n_root}!={exp_n}")
            if out != exp_out:
                return fail(f"C19:retry-law-outcome:{mode}")
    LAST_DETAIL = {"results": {k: str(v) for k, v in res.items()}}
    return True

def go(shape, max_retries, r1, r2, r3, l1, l2, direct, flags=0):
    shape = pick(shape, 0, 3); max_retries = pick(max_retries, 0, 3)
    r1 = pick(r1, 0, 2); r2 = pick(r2, 0, 2); r3 = pick(r3, 0, 2); l1 = pick(l1, 0, 2); l2 = pick(l2, 0, 2); direct = pick(direct, 0, 1)
    flags = pick(flags, 0, 3)
    with NoTracing():
        return program(shape, max_retries, r1, r2, r3, l1, l2, bool(direct), bool(flags & 1), bool(flags & 2))
'''

F = r'''
def prog_s__S___m__M__(r1: int, r2: int, r3: int, l1: int, l2: int, direct: int, flags: int) -> bool:
    """
    pre: 0 <= r1 <= 2 and 0 <= r2 <= 2 and __R3PRE__ and 0 <= l1 <= __LMAX__ and 0 <= l2 <= __LMAX__ and 0 <= direct <= 1
    pre: 0 <= flags <= __FMAX__
    post: _
    """
    # flags: bit 0 = bodies return None, bit 1 = results are read twice (single-child shape and client)
    return go(__S__, __M__, r1, r2, r3, l1, l2, direct, flags)
'''

EXTRA = r'''
def twin(shape: int, r1: int) -> bool:
    """
    pre: 0 <= shape <= 2 and 0 <= r1 <= 2
    post: _
    """
    go(shape, 1, r1, 0, 0, 0, 0, 0)
    return False

def canary_retry_limit(r3: int) -> bool:
    """
    pre: 0 <= r3 <= 2
    post: _
    """
    # mutation canary: a distributed side that allows one more retry than the sync side must be told apart
    r3 = pick(r3, 0, 2)
    with NoTracing():
        a = execute("sync", 0, 1, [1, 1, r3, 0], [0, 0, 0], False)
        b = execute("mem", 0, 2, [1, 1, r3, 0], [0, 0, 0], False)
        return a[0] == b[0] and a[1] == b[1]
'''


def _key_from_replay(args, kwargs, replay_out):
    m = re.search(r"'why': '([^']+)'", replay_out or "")
    return m.group(1) if m else "C19:unclassified"


def run(ctx: Ctx) -> None:
    thorough = ctx.tier == "thorough"
    src = SRC
    conds = []
    for s in range(4):
        for m in range(4):
            f = F.replace("__S__", str(s)).replace("__M__", str(m)).replace("__LMAX__", "0" if s == 0 else "2").replace("__FMAX__", "3" if s <= 1 else "1").replace("__R3PRE__", "0 <= r3 <= 2" if thorough else "r3 == 0")
            src += f
            conds.append(Cond(f"prog_s{s}_m{m}", "confirm", 1500, keyfn=_key_from_replay))
    src += EXTRA
    conds += [Cond("twin", "refute", 60), Cond("canary_retry_limit", "refute", 180)]
    ctx.ch_batch("c19", src, conds)
    from props import C19_sched
    C19_sched.run(ctx)
    ctx.functions_encoded += ["Task._call (mode switch), Task.parallelize/distribute_calls", "ConcurrentInvocation.result / ConcurrentInvocationGroup.results",
                              "DistributedInvocation.run/result, DistributedInvocationGroup.results", "BaseOrchestrator.set_invocation_retry/get_invocations_to_run/route_call",
                              "Pynenc.direct_task wrapper"]
    ctx.bounds = {"programs": "root script of 2 attempts quick / 3 thorough over {return, raise retriable, raise non-retriable}; max_retries 0..3; child shape none / single / parallelized group of 2 / group of 3 from common_args + per-call dictionaries with different key sets "
                              "with a 2-attempt child script (child max_retries 1); plain or direct-task root; bodies returning values or None; results read once or twice",
                  "modes": "sync (dev_mode_force_sync_tasks), distributed on the in-memory stack, distributed on the SQLite stack"}
    ctx.stubs += ["InlineRunner: single-thread stand-in for the runner; its worker step = the persistent-process worker loop body (get_invocations_to_run(1) then invocation.run); "
                  "waiting for a result runs that step inline", "cached_status_time=0, wait sleep 0", "sync history threads, counter clock"]
    ctx.assumptions += ["'through a runner on any backend' is claimed for the orchestration code all runners share, not for thread/process machinery"]
