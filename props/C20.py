"""C20 — monitoring GETs only observe (DESIGN 3/C20).

Part A (CH, traced): the real queue_view coroutine with a symbolic `limit` (unbounded int), queue
length and missing-record flags; post: queue content and order identical whether it returns or raises.
Part B (CH, parameters decided by the solver, handler run concretely incl. real template rendering):
every GET handler enumerated from the view routers, against prepared states; oracle = full dump of the
SQLite file (all tables) / curated in-memory snapshot before and after.
"""

import re

from engine.core import Cond, Ctx

SRC = r'''
import asyncio, importlib, inspect, pkgutil, sqlite3
from engine.hsupport import *
from engine import standins
from pynenc.invocation.status import InvocationStatus as St
standins.install_sync_history()
import pynmon.app as pa
import pynmon.views as pv
from starlette.requests import Request

LAST_DETAIL = None
HANDLERS = []
def _enumerate():
    """GET routes of the monitor, enumerated from the application's route table"""
    if not any(hasattr(r, "original_router") for r in pa.app.routes):
        pa.setup_routes()
    seen = set()
    for r in pa.app.routes:
        subs = r.original_router.routes if hasattr(r, "original_router") else [r]
        for sr in subs:
            ep = getattr(sr, "endpoint", None)
            if ep and "GET" in (getattr(sr, "methods", None) or ()) and ep.__module__.startswith("pynmon"):
                nm = ep.__module__.split(".")[-1] + "." + ep.__name__
                if nm not in seen:
                    seen.add(nm)
                    HANDLERS.append((nm, sr.path, ep))
_enumerate()
HANDLERS.sort(key=lambda h: h[0])
NAMES = [h[0] for h in HANDLERS]

def body(x: int = 0, note: str = "") -> int:
    return x
CALL_KEYS = []

def failing(x: int = 0) -> int:
    raise ValueError("boom")

def mk_request(path="/"):
    return Request({"type": "http", "method": "GET", "path": path, "headers": [], "query_string": b"",
                    "server": ("testserver", 80), "scheme": "http", "root_path": "", "client": ("127.0.0.1", 1), "app": pa.app,
                    "router": pa.app.router})

def drive(coro_or_val):
    """queue_view never awaits: drive it by hand (works under tracing)"""
    if inspect.iscoroutine(coro_or_val):
        try:
            coro_or_val.send(None)
        except StopIteration as s:
            return s.value
        raise RuntimeError("handler awaited something")
    return coro_or_val

def drive_loop(coro_or_val):
    if inspect.iscoroutine(coro_or_val):
        loop = asyncio.new_event_loop()
        try:
            return loop.run_until_complete(coro_or_val)
        finally:
            loop.close()
    return coro_or_val

def world(kind, variant):
    """Prepared system states. variant: 0 empty, 1 small mixed, 2 long queue, 3 partially purged, 4 waiting+failed, 5 long argument values."""
    reset_uuid()
    app = mk_app(kind, app_id="c20" + kind)
    t_ok = app.task(body); t_bad = app.task(failing)
    warm_task(t_ok); warm_task(t_bad)
    ctx = runner_ctx("r1")
    ids = []
    if variant >= 1:
        invs = new_invocations(app, t_ok, 3, [{"x": 0}, {"x": 1}, {"x": 2}])
        ids = [i.invocation_id for i in invs]
        o = app.orchestrator
        app.orchestrator.register_runner_heartbeats(["r1"], can_run_atomic_service=True)
        # inv1 running, inv2 success
        for st in (St.PENDING, St.RUNNING):
            o.set_invocation_status(ids[1], st, ctx)
        for st in (St.PENDING, St.RUNNING):
            o.set_invocation_status(ids[2], st, ctx)
        o.set_invocation_result(invs[2], 42, ctx)
    if variant == 2:
        more = new_invocations(app, t_ok, 4, [{"x": 10 + i} for i in range(4)])
        ids += [i.invocation_id for i in more]
    if variant == 3:
        # queue keeps ids whose records are gone (state backend purged, orchestrator kept)
        app.state_backend.purge()
    if variant == 4:
        bad = new_invocations(app, t_bad, 1, [{"x": 5}])[0]
        o = app.orchestrator
        for st in (St.PENDING, St.RUNNING):
            o.set_invocation_status(bad.invocation_id, st, ctx)
        o.set_invocation_exception(bad, ValueError("boom"), ctx)
        o.waiting_for_results(ids[1], [ids[0]])
        ids.append(bad.invocation_id)
    if variant == 5:
        # long argument values: 600 characters stay inline in the call record, 1500 are externalised
        long_ = new_invocations(app, t_ok, 2, [{"x": 20, "note": "n" * 600}, {"x": 21, "note": "m" * 1500}])
        ids = [i.invocation_id for i in long_] + ids
    CALL_KEYS[:] = [app.state_backend.get_invocation(i).call.call_id.key for i in ids] if ids and variant != 3 else []
    return app, ids, [t_ok, t_bad]

def snapshot(app, kind):
    if kind == "sqlite":
        path = app.orchestrator.sqlite_db_path
        conn = sqlite3.connect(path, timeout=10)
        out = {}
        try:
            for (name,) in conn.execute("SELECT name FROM sqlite_master WHERE type='table' ORDER BY name").fetchall():
                if name.startswith("sqlite_"):
                    continue
                out[name] = conn.execute(f"SELECT * FROM {name} ORDER BY rowid").fetchall()
        finally:
            conn.close()
        return out
    return mem_snapshot(app)

def install(app):
    pa.pynenc_instance = app
    pa.all_pynenc_instances.clear()
    pa.all_pynenc_instances[app.app_id] = app

PARAM_DOMAIN_INT = [-1, 0, 1, 2, 3, 50, 10**6]
def param_values(name, ann, ids, tasks, choice):
    """adversarial small domains per parameter kind; `choice` selects"""
    if ann is int or name in ("limit", "page", "bare"):
        if name == "limit" and ann is not int:
            return [None, "1", "0", "-5", "abc", "500"][choice % 6]
        return PARAM_DOMAIN_INT[choice % len(PARAM_DOMAIN_INT)]
    existing = ids[0] if ids else "none"
    if "invocation_id" in name:
        return [existing, ids[-1] if ids else "x", "00000000-0000-4000-8000-00000000dead", "not-a-uuid", ""][choice % 5]
    if "task_id" in name or "workflow_type" in name:
        return [tasks[0].task_id.key, tasks[1].task_id.key, "no.such.task", "malformed", None if name != "task_id_key" else ""][choice % 5]
    if "call_id" in name:
        dom = ([CALL_KEYS[0], CALL_KEYS[-1]] if CALL_KEYS else []) + ["no-such-call", "a:b", ""]
        return dom[choice % len(dom)]
    if "runner_id" in name:
        return ["r1", "nobody", ""][choice % 3]
    if name == "status":
        return [None, "running", "success", "bogus"][choice % 4]
    if name == "app_id":
        return ["c20mem", "c20sqlite", "other"][choice % 3]
    return [None, "", "5m", "1h", "x", "1"][choice % 6] if name not in ("expand", "log") else ["", "a,b", "x"][choice % 3]

def call_handler(hi, kind, variant, c1, c2):
    global LAST_DETAIL
    name, path, ep = HANDLERS[hi]
    app, ids, tasks = world(kind, variant)
    install(app)
    sig = inspect.signature(ep)
    kwargs = {}
    choices = [c1, c2]
    ci = 0
    for p in sig.parameters.values():
        if p.name == "request":
            kwargs["request"] = mk_request(path)
            continue
        v = param_values(p.name, p.annotation, ids, tasks, choices[ci % 2] + ci)
        ci += 1
        kwargs[p.name] = v
    before = snapshot(app, kind)
    outcome = "returned"
    try:
        drive_loop(ep(**kwargs))
    except Exception as e:
        outcome = "raised " + type(e).__name__ + ":" + str(e)[:60]
    try:
        app.state_backend.wait_for_all_async_operations()
    except Exception:
        pass
    after = snapshot(app, kind)
    if before != after:
        diff = [k for k in set(before) | set(after) if before.get(k) != after.get(k)]
        LAST_DETAIL = {"handler": name, "kind": kind, "variant": variant, "params": {k: v for k, v in kwargs.items() if k != "request"},
                       "outcome": outcome, "changed": diff, "why": f"C20:{name}:state-changed"}
        return False
    LAST_DETAIL = {"handler": name, "outcome": outcome}
    return True

# ------------------------------------------------------------------ part A: queue view, symbolic limit (traced)
import pynmon.views.broker as vb

def queue_scene(kind, n, missing_mask, dup_mask=0):
    reset_uuid()
    app = mk_app(kind, app_id="c20q" + kind)
    t_ok = app.task(body)
    warm_task(t_ok)
    invs = new_invocations(app, t_ok, n, [{"x": i} for i in range(n)]) if n else []
    ids = [i.invocation_id for i in invs]
    if missing_mask:
        sb = app.state_backend
        for i, iid in enumerate(ids):
            if (missing_mask >> i) & 1:
                if hasattr(sb, "_cache"):
                    sb._cache.pop(iid, None)
                else:
                    from pynenc.util.sqlite_utils import create_sqlite_connection
                    with create_sqlite_connection(sb.sqlite_db_path) as conn:
                        conn.execute(f"DELETE FROM {sb.tables.INVOCATIONS} WHERE invocation_id = ?", (iid,))
                        conn.commit()
    for i, iid in enumerate(ids):
        if (dup_mask >> i) & 1:
            app.broker.route_invocation(iid)      # the same id queued once more (re-route, retry, at-least-once delivery)
    install(app)
    return app, ids

def queue_list(app, kind):
    if kind == "mem":
        return list(app.broker._queue)
    conn = sqlite3.connect(app.broker.sqlite_db_path, timeout=10)
    try:
        return [r[0] for r in conn.execute(f"SELECT invocation_id FROM {app.broker.tables.QUEUE} ORDER BY created_at ASC, id ASC").fetchall()]
    finally:
        conn.close()

class _Rec:
    def TemplateResponse(self, *a, **k):
        return ("template", a[1] if len(a) > 1 else None)

def queue_get(kind_i, limit, n, missing_mask, multiset_only=False, dup_mask=0):
    """the GET handler itself runs traced with the symbolic limit"""
    global LAST_DETAIL
    kind = ["mem", "sqlite"][kind_i]
    with NoTracing():
        app, ids = queue_scene(kind, n, missing_mask, dup_mask)
        before = queue_list(app, kind)
        saved = vb.templates
        vb.templates = _Rec()
    outcome = "returned"
    # only the handler's own control flow is traced (symbolic limit); the component calls it makes run untraced on
    # concrete ids (sqlite3/json raise artefacts under tracing)
    def untraced(fn):
        def w(*a, **k):
            with NoTracing():
                return fn(*a, **k)
        return w
    with NoTracing():
        for comp, names in ((app.broker, ("retrieve_invocation", "route_invocation", "count_invocations")), (app.state_backend, ("get_invocation",))):
            for nm in names:
                setattr(comp, nm, untraced(getattr(comp, nm)))
    try:
        drive(vb.queue_view(None, limit))
    except Exception as e:
        outcome = "raised " + type(e).__name__
    with NoTracing():
        vb.templates = saved
        after = queue_list(app, kind)
        LAST_DETAIL = {"kind": kind, "n": n, "missing_mask": missing_mask, "dup_mask": dup_mask, "before": before, "after": after, "outcome": outcome}
    if multiset_only:
        return sorted(after) == sorted(before)
    return after == before
'''

QUEUE = r'''
def queue_ok(kind_i: int, limit: int, n: int) -> bool:
    """
    pre: 0 <= kind_i <= 1 and 0 <= n <= 4
    pre: limit >= n or limit <= 0
    post: _
    """
    kind_i = pick(kind_i, 0, 1); n = pick(n, 0, 4)
    return queue_get(kind_i, limit, n, 0)

def queue_twin(kind_i: int, limit: int, n: int) -> bool:
    """
    pre: 0 <= kind_i <= 1 and 0 <= n <= 4
    pre: limit >= n or limit <= 0
    post: _
    """
    queue_ok(kind_i, limit, n)
    return False

def queue_with_duplicates(kind_i: int, limit: int, n: int, dup: int) -> bool:
    """
    pre: 0 <= kind_i <= 1 and 1 <= n <= 3 and 1 <= dup < 8
    pre: limit >= 6 or limit <= 0
    post: _
    """
    # the same id queued more than once, the page covers the whole queue: ids, multiplicities and order are unchanged
    kind_i = pick(kind_i, 0, 1); n = pick(n, 1, 3); dup = pick(dup, 1, 7)
    if dup >= (1 << n):
        return True
    return queue_get(kind_i, limit, n, 0, dup_mask=dup)

def finding_queue_rotates(kind_i: int, limit: int, n: int) -> bool:
    """
    pre: 0 <= kind_i <= 1 and 2 <= n <= 4
    pre: 0 < limit < n
    post: _
    """
    kind_i = pick(kind_i, 0, 1); n = pick(n, 2, 4)
    return queue_get(kind_i, limit, n, 0)

def queue_never_loses(kind_i: int, limit: int, n: int, mask: int) -> bool:
    """
    pre: 0 <= kind_i <= 1 and 1 <= n <= 3 and 1 <= mask < 8
    post: _
    """
    # whatever the limit and whichever records are missing (the page fails): no queued message disappears
    kind_i = pick(kind_i, 0, 1); n = pick(n, 1, 3); mask = pick(mask, 1, 7)
    if mask >= (1 << n):
        return True
    return queue_get(kind_i, limit, n, mask, multiset_only=True)

def finding_queue_rotates_on_failure(kind_i: int, limit: int, n: int, mask: int) -> bool:
    """
    pre: 0 <= kind_i <= 1 and 2 <= n <= 3 and 1 <= mask < 8
    pre: limit >= n
    post: _
    """
    kind_i = pick(kind_i, 0, 1); n = pick(n, 2, 3); mask = pick(mask, 1, 7)
    if mask >= (1 << n):
        return True
    return queue_get(kind_i, limit, n, mask)
'''

HF = r'''
def get___I__(kind_i: int, variant: int, c1: int, c2: int) -> bool:
    """
    pre: 0 <= kind_i <= 1 and 0 <= variant <= 5 and 0 <= c1 <= __C1MAX__ and 0 <= c2 <= __C2MAX__
    post: _
    """
    kind_i = pick(kind_i, 0, 1); variant = pick(variant, 0, 5); c1 = pick(c1, 0, 6); c2 = pick(c2, 0, 6)
    with NoTracing():
        return call_handler(__I__, ["mem", "sqlite"][kind_i], variant, c1, c2)
'''


def _key_from_replay(args, kwargs, replay_out):
    m = re.search(r"'why': '([^']+)'", replay_out or "")
    return m.group(1) if m else "C20:unclassified"


def _handler_names():
    """Enumerate GET handlers from the live application route table: {name: number of parameters besides the request}."""
    import logging
    logging.disable(logging.CRITICAL)
    import pynmon.app as pa
    if not any(hasattr(r, "original_router") for r in pa.app.routes):
        pa.setup_routes()
    import inspect
    names = {}
    for r in pa.app.routes:
        subs = r.original_router.routes if hasattr(r, "original_router") else [r]
        for sr in subs:
            ep = getattr(sr, "endpoint", None)
            if ep and "GET" in (getattr(sr, "methods", None) or ()) and ep.__module__.startswith("pynmon"):
                nparams = len([p for p in inspect.signature(ep).parameters if p != "request"])
                names.setdefault(ep.__module__.split(".")[-1] + "." + ep.__name__, nparams)
    return dict(sorted(names.items()))


def run(ctx: Ctx) -> None:
    names = _handler_names()
    src = SRC + QUEUE
    conds = [
        Cond("queue_ok", "confirm", 600),
        Cond("queue_twin", "refute", 120),
        Cond("queue_with_duplicates", "confirm", 600, keyfn=lambda a, k: "C20:queue_view:queue-changed-when-an-id-is-queued-twice"),
        Cond("finding_queue_rotates", "finding", 300, key="C20:queue_view:rotates-order-when-queue-longer-than-limit",
             what="GET /broker/queue?limit=k with more than k queued messages pops k and re-appends them behind the rest: the queue order changes"),
        Cond("queue_never_loses", "confirm", 600, keyfn=lambda a, k: "C20:queue_view:loses-messages-when-record-missing",
             what="GET /broker/queue pops messages, then state_backend.get_invocation raises for an id without a stored record: the popped messages are never routed back"),
        Cond("finding_queue_rotates_on_failure", "finding", 300, key="C20:queue_view:rotates-order-when-a-lookup-fails",
             what="GET /broker/queue fails on a queued id without a stored record: the messages popped so far are re-queued behind the rest, the queue order changes"),
    ]
    skip = {"broker.queue_view"}
    covered = []
    for i, (nm, nparams) in enumerate(names.items()):
        if nm in skip:
            continue
        # parameter choices only where the handler has parameters (c1 drives the 1st, 3rd, ... parameter, c2 the 2nd, 4th, ...)
        src += HF.replace("__I__", str(i)).replace("__C1MAX__", "6" if nparams >= 1 else "0").replace("__C2MAX__", "6" if nparams >= 2 else "0")
        conds.append(Cond(f"get_{i}", "confirm", 900, keyfn=_key_from_replay, what=f"GET handler {nm}"))
        covered.append(nm)
    ctx.ch_batch("c20", src, conds)
    ctx.functions_encoded += ["pynmon.views.broker.queue_view (traced, symbolic limit)"] + [f"pynmon.views.{n} (parameters decided by the solver, handler + template rendering run concretely)" for n in covered]
    ctx.bounds = {
        "queue_view": "limit: unbounded symbolic int through the traced handler (its component calls run untraced on concrete ids); queue length 0..4; missing-record subsets; both backends",
        "other handlers": "every GET route of the view routers x 5 prepared states (empty, mixed, long queue, state backend purged, failed+waiting) x 7x7 parameter choices from adversarial domains (existing/missing/malformed ids, limits -1..1e6) x 2 backends",
    }
    ctx.stubs += ["handler coroutines driven with send(None) (they never await)", "queue_view: templates.TemplateResponse replaced by a recorder; other handlers render the real templates",
                  "Starlette Request built from a minimal ASGI scope", "sync history threads"]
    ctx.assumptions += ["oracle for SQLite = dump of every table of the database file; for the in-memory stack a curated snapshot of orchestrator/broker/state-backend/trigger attributes (caches excluded)",
                        "parameter strings come from finite adversarial domains, not arbitrary strings"]
