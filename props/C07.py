"""C07 — registration concurrency collapses duplicate submissions (DESIGN 3/C07).

CH: bounded submission/claim histories through the real task call path (Task.__call__ ->
BaseOrchestrator.route_call -> get_existing_invocations / filter_by_key_arguments / SQL JOIN-per-key)
on both backends, against a dictionary model `registration key -> REGISTERED invocation`.
History = a symbolic subset of 4 key combinations submitted first (reachable pre-state built by real
submissions) followed by free operations; mode and raise flag symbolic.
"""

from engine.core import Cond, Ctx

SRC = r'''
from engine.hsupport import *
from engine import standins
from pynenc.invocation.status import InvocationStatus as St
from pynenc.exceptions import InvocationConcurrencyWithDifferentArgumentsError
from pynenc.conf.config_task import ConcurrencyControlType as CC
from pynenc.invocation.dist_invocation import ReusedInvocation

standins.install_sync_history()
import pynenc.orchestrator.mem_orchestrator as _mo, pynenc.orchestrator.sqlite_orchestrator as _so
standins.patch_clock(standins.CounterClock(1_600_000_000.0), _mo, _so)
LAST_DETAIL = None

def work(k1: str, k2: str, other: int = 0) -> int:
    return 1

# the two key arguments draw from the SAME two values: keys that differ only in which argument holds which value must stay distinct
K1 = ["a", "b"]
K2 = ["b", "a"]
# configs: (registration mode, on_diff_non_key_args_raise)
CONFIGS = [("DISABLED", False), ("TASK", False), ("ARGUMENTS", False), ("KEYS", False), ("KEYS", True)]
NOPS = 9  # 0..7 submit(k1,k2,other) ; 8 claim oldest REGISTERED

def canon(args):
    """identity of argument values as the call identity sees them: 1, True and 1.0 are three different values"""
    return tuple((type(a).__name__, a) for a in args)

def keyfn(mode, args):
    if mode == "TASK":
        return ()
    if mode == "ARGUMENTS":
        return canon(args)
    return canon((args[0], args[1]))

# values of the non-key argument that are equal for Python's == but differ as call arguments (and one that is simply different)
OV = [0, False, 0.0, 1, True, 1.0, "1"]

def submit(task, args, spelling):
    k1, k2, other = args
    if spelling == 0:
        return task(k1, k2, other)
    if spelling == 1:
        return task(other=other, k2=k2, k1=k1)
    if type(other) is int and other == 0:
        return task(k1, k2)
    return task(k1, k2=k2, other=other)

def world(kind, mode, raise_flag):
    reset_uuid()
    app = mk_app(kind, app_id="c07" + kind)
    opts = {"registration_concurrency": getattr(CC, mode)}
    if mode == "KEYS":
        opts["key_arguments"] = ("k1", "k2")
        opts["on_diff_non_key_args_raise"] = raise_flag
    task = app.task(**opts)(work)
    warm_task(task)
    return app, task

def run_hist(kind, cfg, mask, ops, values=False):
    global LAST_DETAIL
    mode, raise_flag = CONFIGS[cfg]
    app, task = world(kind, mode, raise_flag)
    orch = app.orchestrator
    ctx = runner_ctx("r1")
    model = {}        # key -> (invocation id, args)
    created = []      # invocation ids in creation order
    seq = [(i >> 1, i & 1, 0) for i in range(4) if (mask >> i) & 1]   # pre-state submissions (other = 0)
    seq = [("submit", (K1[a], K2[b], o)) for (a, b, o) in seq]
    if values:
        seq = []          # value family: same key arguments throughout, the non-key argument ranges over OV; op 7 = claim
    for op in ops:
        if values:
            seq.append(("submit", (K1[0], K2[0], OV[op])) if op < 7 else ("claim", None))
        elif op < 8:
            seq.append(("submit", (K1[(op >> 2) & 1], K2[(op >> 1) & 1], op & 1)))
        else:
            seq.append(("claim", None))
    log = []
    nsub = 0
    for (what, args) in seq:
        if what == "submit":
            spelling = nsub % 3
            nsub += 1
            before_total = orch.count_invocations()
            try:
                inv = submit(task, args, spelling)
                got = ("inv", inv.invocation_id, isinstance(inv, ReusedInvocation))
            except InvocationConcurrencyWithDifferentArgumentsError:
                got = ("raise",)
            log.append((what, args, got))
            if mode == "DISABLED":
                if got[0] != "inv" or got[1] in created or got[2]:
                    LAST_DETAIL = log; return False
                created.append(got[1])
            else:
                key = keyfn(mode, args)
                if key in model:
                    ex_id, ex_args = model[key]
                    if mode == "KEYS" and raise_flag and canon(ex_args) != canon(args):
                        if got != ("raise",) or orch.count_invocations() != before_total:
                            LAST_DETAIL = log; return False
                    else:
                        if got[0] != "inv" or got[1] != ex_id or orch.count_invocations() != before_total:
                            LAST_DETAIL = log; return False
                else:
                    if got[0] != "inv" or got[1] in created or got[2]:
                        LAST_DETAIL = log; return False
                    created.append(got[1])
                    model[key] = (got[1], args)
        else:
            reg = [i for i in created if orch.get_invocation_status(i) == St.REGISTERED]
            if reg:
                orch.set_invocation_status(reg[0], St.PENDING, ctx)
                for k in [k for k, v in model.items() if v[0] == reg[0]]:
                    del model[k]
            log.append((what, reg[:1], None))
        # invariants after every op
        n_reg = orch.count_invocations(statuses=[St.REGISTERED])
        if orch.count_invocations() != len(created):
            LAST_DETAIL = log + ["total count mismatch"]; return False
        if mode != "DISABLED" and n_reg != len(model):
            LAST_DETAIL = log + [f"REGISTERED={n_reg} model={len(model)}"]; return False
    return True

def both(cfg, mask, ops):
    cfg = pick(cfg, 0, 4); mask = pick(mask, 0, 15)
    ops = [pick(o, 0, NOPS - 1) for o in ops]
    with NoTracing():
        return run_hist("mem", cfg, mask, ops) and run_hist("sqlite", cfg, mask, ops)
'''

V3 = r'''
def values_c__C__(o1: int, o2: int, o3: int) -> bool:
    """
    pre: 0 <= o1 <= 7 and 0 <= o2 <= 7 and 0 <= o3 <= 7
    post: _
    """
    o1 = pick(o1, 0, 7); o2 = pick(o2, 0, 7); o3 = pick(o3, 0, 7)
    with NoTracing():
        return run_hist("mem", __C__, 0, [o1, o2, o3], True) and run_hist("sqlite", __C__, 0, [o1, o2, o3], True)
'''

H2 = r'''
def hist2_c__C___o__K__(mask: int, o2: int) -> bool:
    """
    pre: 0 <= mask <= 15 and 0 <= o2 < NOPS
    post: _
    """
    return both(__C__, mask, [__K__, o2])
'''

H3 = r'''
def hist3_c__C___o__K__(mask: int, o2: int, o3: int) -> bool:
    """
    pre: 0 <= mask <= 15 and 0 <= o2 < NOPS and 0 <= o3 < NOPS
    post: _
    """
    return both(__C__, mask, [__K__, o2, o3])
'''

EXTRA = r'''
def twin(cfg: int, mask: int, o1: int) -> bool:
    """
    pre: 0 <= cfg <= 4 and 0 <= mask <= 15 and 0 <= o1 < NOPS
    post: _
    """
    both(cfg, mask, [o1])
    return False

def canary_wrong_key(mask: int, o1: int, o2: int) -> bool:
    """
    pre: 0 <= mask <= 15 and 0 <= o1 < NOPS and 0 <= o2 < NOPS
    post: _
    """
    # wrong spec on purpose: KEYS mode modelled with the key (k1 only) -> must be refuted
    global keyfn
    old = keyfn
    keyfn = lambda mode, args: (args[0],) if mode == "KEYS" else old(mode, args)
    try:
        return both(3, mask, [o1, o2])
    finally:
        keyfn = old
'''


def run(ctx: Ctx) -> None:
    thorough = ctx.tier == "thorough"
    src = SRC
    conds = []
    tmpl, name = (H3, "hist3") if thorough else (H2, "hist2")
    for c in range(5):
        for k in range(9):
            src += tmpl.replace("__C__", str(c)).replace("__K__", str(k))
            conds.append(Cond(f"{name}_c{c}_o{k}", "confirm", 3000 if thorough else 600))
    for c in range(5):
        src += V3.replace("__C__", str(c))
        conds.append(Cond(f"values_c{c}", "confirm", 900))
    src += EXTRA
    conds += [Cond("twin", "refute", 60), Cond("canary_wrong_key", "refute", 300)]
    res = ctx.ch_batch("c07", src, conds)
    ctx.functions_encoded += [
        "Task.__call__/_call", "Arguments.from_call", "Call.serialized_args_for_concurrency_control",
        "BaseOrchestrator.route_call/_route_new_call_invocation/register_new_invocations",
        "MemOrchestrator.get_existing_invocations/filter_by_key_arguments/index_arguments_for_concurrency_control",
        "SQLiteOrchestrator.get_existing_invocations (JOIN per key)/index_arguments_for_concurrency_control",
    ]
    ctx.bounds = {
        "history": f"symbolic subset of 4 key combinations submitted first + {3 if thorough else 2} free ops over 9 letters "
                   "(submit k1 in {a,b} x k2 in {b,a} x other in {0,1}: the same values occur under both key arguments; claim oldest REGISTERED)",
        "values": "3 ops over: submit(a, b, other) with other in {0, False, 0.0, 1, True, 1.0, '1'} (equal for ==, different call arguments) / claim; every mode",
        "modes": "DISABLED, TASK, ARGUMENTS, KEYS(k1,k2) with and without on_diff_non_key_args_raise",
        "spellings": "positional / keyword (reordered) / default omitted, rotating with the submission index",
        "backends": "in-memory and SQLite, same history, both against the dictionary model",
    }
    ctx.stubs += ["sync history threads", "counter clock", "deterministic uuid4", "fresh apps per path; after the solver decides the op codes the real code runs concretely"]
    ctx.assumptions += ["argument values are concrete strings/ints (the serializer is C code); only choice indices are symbolic"]
    r = res.get(f"{name}_c3_o0")
    if r:
        ctx.samples.append({"obligation": r.cond.name, "state": r.state, "paths": r.num_paths,
                            "meaning": "KEYS mode, first free op submit(a,b,0), all pre-state subsets and remaining ops"})
