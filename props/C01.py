"""C01 — lifecycle state machine, finals absorbing (DESIGN 3/C01).

Engine CH: the real status_record_transition and the real set_invocation_status of both
orchestrators against an independent table (engine/specs/status_spec.py); one symbolic step from an
arbitrary (status, owner) pre-state is the inductive step covering histories of any length.
"""

from engine.core import Cond, Ctx

COMMON = r'''
from typing import Optional
from collections import defaultdict
from datetime import datetime, UTC
from engine.hsupport import *
from engine import standins
from engine.specs.status_spec import STATUSES, spec_step, FINAL, EDGES
from pynenc.invocation.status import InvocationStatus, InvocationStatusRecord, status_record_transition
from pynenc.exceptions import InvocationStatusTransitionError, InvocationStatusOwnershipError, InvocationStatusError
from pynenc.call import Call
from pynenc.arguments import Arguments
from pynenc.invocation.dist_invocation import DistributedInvocation

standins.install_sync_history()
import pynenc.orchestrator.mem_orchestrator as _mo, pynenc.orchestrator.sqlite_orchestrator as _so
CLOCK = standins.CounterClock(1_600_000_000.0)
standins.patch_clock(CLOCK, _mo, _so)
S = [InvocationStatus(s) for s in STATUSES]
assert len(S) == 14 and set(S) == set(InvocationStatus), "status universe changed"
TS0 = datetime(2020, 1, 1, tzinfo=UTC)
MAXLEN = __MAXLEN__
OWN = [None, "r1", "r2", ""]
RID = ["r1", "r2", ""]

def body() -> int:
    return 1

def fresh(kind, stub):
    with NoTracing():
        app = mk_app(kind)
        task = app.task(body)
        warm_task(task)
        inv = DistributedInvocation.isolated(Call(task, Arguments({})))
        app.orchestrator.register_new_invocations([inv])
        calls = []
        if stub:
            app.state_backend.add_history = lambda *a, **k: calls.append(("h", a))
            app.trigger.report_tasks_status = lambda *a, **k: calls.append(("t", a))
        return app, inv.invocation_id

def pure(cur, owner, new, rid, spec=spec_step):
    rec = None if cur == 14 else InvocationStatusRecord(S[cur], owner, TS0)
    exp = spec(None if cur == 14 else STATUSES[cur], owner, STATUSES[new], rid)
    try:
        r = status_record_transition(rec, S[new], rid)
        got = ("ok", r.status.value, r.runner_id)
    except InvocationStatusTransitionError:
        got = ("T",)
    except InvocationStatusOwnershipError:
        got = ("O",)
    return got == exp

def force_mem(orch, iid, cur, owner):
    rec0 = InvocationStatusRecord(S[cur], owner, TS0)
    orch.invocation_status_record[iid] = rec0
    orch.status_index = defaultdict(set)
    orch.status_index[S[cur]].add(iid)
    return rec0

def request(orch, iid, new, rid):
    try:
        orch.set_invocation_status(iid, S[new], ctx_with_id(None, rid))
        return "ok"
    except InvocationStatusTransitionError:
        return "T"
    except InvocationStatusOwnershipError:
        return "O"

def mem_step(cur, owner, new, rid, stub, spec=spec_step):
    app, iid = fresh("mem", stub)
    orch = app.orchestrator
    rec0 = force_mem(orch, iid, cur, owner)
    exp = spec(STATUSES[cur], owner, STATUSES[new], rid)
    got = request(orch, iid, new, rid)
    rec1 = orch.get_invocation_status_record(iid)
    if exp[0] != got:
        return False
    in_new = iid in orch.status_index[S[new]]
    in_cur = iid in orch.status_index[S[cur]]
    if got != "ok":
        # status, owner and timestamp exactly as they were; index untouched
        return rec1 is rec0 and in_cur and (cur == new or not in_new)
    return (rec1.status.value == exp[1] and rec1.runner_id == exp[2] and in_new
            and (cur == new or not in_cur) and orch.get_invocation_status(iid) == S[new])

def force_sql(orch, iid, cur, owner):
    from pynenc.util.sqlite_utils import create_sqlite_connection
    with NoTracing():
        with create_sqlite_connection(orch.sqlite_db_path) as conn:
            conn.execute(
                f"UPDATE {orch.tables.INVOCATIONS} SET status=?, status_runner_id=?, status_timestamp=? WHERE invocation_id=?",
                (S[cur].value, owner, 1577836800.0, iid))
            conn.commit()

def row_sql(orch, iid):
    from pynenc.util.sqlite_utils import create_sqlite_connection
    with NoTracing():
        with create_sqlite_connection(orch.sqlite_db_path) as conn:
            return conn.execute(
                f"SELECT status, status_runner_id, status_timestamp FROM {orch.tables.INVOCATIONS} WHERE invocation_id=?",
                (iid,)).fetchone()

def sql_step(cur, oi, new, ri):
    owner, rid = OWN[oi], RID[ri]
    app, iid = fresh("sqlite", False)
    orch = app.orchestrator
    force_sql(orch, iid, cur, owner)
    row0 = row_sql(orch, iid)
    exp = spec_step(STATUSES[cur], owner, STATUSES[new], rid)
    got = request(orch, iid, new, rid)
    row1 = row_sql(orch, iid)
    rec1 = orch.get_invocation_status_record(iid)
    # the in-memory orchestrator must behave identically for the same request
    mapp, miid = fresh("mem", False)
    force_mem(mapp.orchestrator, miid, cur, owner)
    mgot = request(mapp.orchestrator, miid, new, rid)
    mrec = mapp.orchestrator.get_invocation_status_record(miid)
    if exp[0] != got or mgot != got:
        return False
    if got != "ok":
        return row1 == row0
    return (row1[0] == exp[1] and row1[1] == exp[2] and rec1.status.value == exp[1] and rec1.runner_id == exp[2]
            and mrec.status == rec1.status and mrec.runner_id == rec1.runner_id)

def seq_from_registered(kind, reqs):
    """Apply a request sequence through the public call; model = spec fold. Returns equality of
    outcome lists and final records; finals must be absorbing."""
    app, iid = fresh(kind, False)
    orch = app.orchestrator
    rec = orch.get_invocation_status_record(iid)
    if rec.status.value != "registered":
        return False
    # the REGISTERED record carries the registering runner's id; REGISTERED is not an owned status
    cur, owner = "registered", rec.runner_id
    for (new, ri) in reqs:
        rid = RID[ri]
        exp = spec_step(cur, owner, STATUSES[new], rid)
        was_final = cur in FINAL
        got = request(orch, iid, new, rid)
        if got != exp[0]:
            return False
        if was_final and got == "ok":
            return False
        if got == "ok":
            cur, owner = exp[1], exp[2]
        rec = orch.get_invocation_status_record(iid)
        if rec.status.value != cur or rec.runner_id != owner:
            return False
    return True

def bad_spec(cur, owner, new, rid):
    """Deliberately wrong table: PAUSED does not require ownership (mutation canary)."""
    r = spec_step(cur, owner, new, rid)
    if cur == "paused" and r == ("O",):
        return ("ok", new, owner)
    return r
'''

PURE = r'''
def pure_c__K__(owner: Optional[str], new: int, rid: Optional[str]) -> bool:
    """
    pre: 0 <= new <= 13
    pre: owner is None or len(owner) <= MAXLEN
    pre: rid is None or len(rid) <= MAXLEN
    post: _
    """
    return pure(__K__, owner, new, rid)
'''

MEM = r'''
def mem_c__K__(owner: Optional[str], new: int, rid: str) -> bool:
    """
    pre: 0 <= new <= 13
    pre: owner is None or len(owner) <= MAXLEN
    pre: len(rid) <= MAXLEN
    post: _
    """
    return mem_step(__K__, owner, new, rid, True)

def memreal_c__K__(oi: int, new: int, ri: int) -> bool:
    """
    pre: 0 <= new <= 13 and 0 <= oi <= 3 and 0 <= ri <= 2
    post: _
    """
    return mem_step(__K__, OWN[oi], new, RID[ri], False)

def sql_c__K__(oi: int, new: int, ri: int) -> bool:
    """
    pre: 0 <= new <= 13 and 0 <= oi <= 3 and 0 <= ri <= 2
    post: _
    """
    return sql_step(__K__, oi, new, ri)
'''

EXTRA = r'''
def twin_pure(cur: int, owner: Optional[str], new: int, rid: Optional[str]) -> bool:
    """
    pre: 0 <= cur <= 14 and 0 <= new <= 13
    pre: owner is None or len(owner) <= MAXLEN
    pre: rid is None or len(rid) <= MAXLEN
    post: _
    """
    pure(cur, owner, new, rid)
    return False

def canary_pure(owner: Optional[str], new: int, rid: Optional[str]) -> bool:
    """
    pre: 0 <= new <= 13
    pre: owner is None or len(owner) <= MAXLEN
    pre: rid is None or len(rid) <= MAXLEN
    post: _
    """
    return pure(8, owner, new, rid, spec=bad_spec)

def twin_mem(cur: int, owner: Optional[str], new: int, rid: str) -> bool:
    """
    pre: 0 <= cur <= 13 and 0 <= new <= 13
    pre: owner is None or len(owner) <= MAXLEN
    pre: len(rid) <= MAXLEN
    post: _
    """
    mem_step(cur, owner, new, rid, True)
    return False

def canary_mem(owner: Optional[str], new: int, rid: str) -> bool:
    """
    pre: 0 <= new <= 13
    pre: owner is None or len(owner) <= MAXLEN
    pre: len(rid) <= MAXLEN
    post: _
    """
    return mem_step(8, owner, new, rid, True, spec=bad_spec)

def twin_sql(cur: int, oi: int, new: int, ri: int) -> bool:
    """
    pre: 0 <= cur <= 13 and 0 <= new <= 13 and 0 <= oi <= 3 and 0 <= ri <= 2
    post: _
    """
    sql_step(cur, oi, new, ri)
    return False

def register_only_registered(kind_i: int, n: int) -> bool:
    """
    pre: 0 <= kind_i <= 1 and 1 <= n <= 2
    post: _
    """
    kind = ["mem", "sqlite"][kind_i]
    with NoTracing():
        app = mk_app(kind)
        task = app.task(body)
        warm_task(task)
        invs = [DistributedInvocation.isolated(Call(task, Arguments({}))) for _ in range(2)]
    invs = invs[:n]
    app.orchestrator.register_new_invocations(invs)
    for inv in invs:
        rec = app.orchestrator.get_invocation_status_record(inv.invocation_id)
        if rec.status != InvocationStatus.REGISTERED or rec.runner_id is not None and False:
            return False
    return True
'''

SEQ2 = r'''
def seq2_k__K__(kind_i: int, r1: int, n2: int, r2: int) -> bool:
    """
    pre: 0 <= kind_i <= 1
    pre: 0 <= r1 <= 2 and 0 <= n2 <= 13 and 0 <= r2 <= 2
    post: _
    """
    return seq_from_registered(["mem", "sqlite"][kind_i], [(__K__, r1), (n2, r2)])
'''

SEQ3 = r'''
def seq3_k__K__(kind_i: int, r1: int, n2: int, r2: int, n3: int, r3: int) -> bool:
    """
    pre: 0 <= kind_i <= 1
    pre: 0 <= r1 <= 1 and 0 <= n2 <= 13 and 0 <= r2 <= 1 and 0 <= n3 <= 13 and 0 <= r3 <= 1
    post: _
    """
    return seq_from_registered(["mem", "sqlite"][kind_i], [(__K__, r1), (n2, r2), (n3, r3)])
'''


RACEF = r'''
def race___KIND_____CUR_____N1__(n2: int, first: int, k1: int, k2: int) -> bool:
    """
    pre: 0 <= n2 <= 13 and 0 <= first <= FIRSTMAX and 0 <= k1 <= 26 and 0 <= k2 <= 26
    post: _
    """
    n2 = pick(n2, 0, 13)
    with NoTracing():
        return race(["mem", "sqlite"][__KIND__], __CUR__, 1, [(__N1__, "r1"), (n2, "r2")], first, [k1, k2])
'''


def run(ctx: Ctx) -> None:
    thorough = ctx.tier == "thorough"
    maxlen = 2 if thorough else 1
    src = COMMON.replace("__MAXLEN__", str(maxlen))
    conds: list[Cond] = []
    to = 400 if thorough else 150
    for k in range(15):
        src += PURE.replace("__K__", str(k))
        conds.append(Cond(f"pure_c{k}", "confirm", to))
    for k in range(14):
        src += MEM.replace("__K__", str(k))
        conds.append(Cond(f"mem_c{k}", "confirm", to))
        conds.append(Cond(f"memreal_c{k}", "confirm", to))
        conds.append(Cond(f"sql_c{k}", "confirm", to))
    # 2-step sequences from REGISTERED split by first request (cross-check of the induction)
    firsts = range(14)
    for k in firsts:
        src += SEQ2.replace("__K__", str(k))
        conds.append(Cond(f"seq2_k{k}", "confirm", to))
    if thorough:
        for k in (4, 1, 2):  # first requests that are accepted from REGISTERED: pending, cc, cc_final
            src += SEQ3.replace("__K__", str(k))
            conds.append(Cond(f"seq3_k{k}", "confirm", 1500))
    src += EXTRA
    conds += [
        Cond("twin_pure", "refute", 60), Cond("canary_pure", "refute", 120),
        Cond("twin_mem", "refute", 60), Cond("canary_mem", "refute", 120),
        Cond("twin_sql", "refute", 60),
        Cond("register_only_registered", "confirm", to),
    ]
    res = ctx.ch_batch("c01", src, conds)
    # two requests for one OWNED invocation in flight at the same time (owner's request vs another runner / recovery): the outcome is that
    # of one of the two serial orders on the specification table - in particular a final status reached by one request is never left
    # by the other (engine SCHED, harness shared with C02)
    from props import C02
    from engine.specs.status_spec import STATUSES
    rsrc = C02.COMMON.replace("KMAX", "26") + "\ninstall()\n"
    rconds = []
    owned = [STATUSES.index(x) for x in ("pending", "running")]
    sq_first = [STATUSES.index(x) for x in ("success", "running_recovery", "killed", "retry")]
    ix = STATUSES.index
    owner_requests = {ix("running"): [ix(x) for x in (("running", "success", "failed", "retry", "killed", "rerouted", "running_recovery", "pending_recovery") if thorough
                                                       else ("success", "failed", "retry", "killed", "running_recovery"))],
                      ix("pending"): [ix(x) for x in (("running", "killed", "rerouted", "pending_recovery") if thorough else ("running", "killed"))]}
    for kind, cur_list in ((0, owned), (1, [STATUSES.index("running")])):
        for cur in cur_list:
            for n1 in (owner_requests[cur] if kind == 0 else sq_first):
                rsrc += RACEF.replace("FIRSTMAX", "1" if thorough else "0").replace("__KIND__", str(kind)).replace("__CUR__", str(cur)).replace("__N1__", str(n1))
                rconds.append(Cond(f"race_{kind}_{cur}_{n1}", "confirm", 900, keyfn=lambda a, k: "C01:two-requests-in-flight:not-linearisable"))
    ctx.ch_batch("c01race", rsrc, rconds)
    ctx.bounds["two requests in flight"] = ("start PENDING / RUNNING owned by r1; request 1 by the owner (quick: 5 statuses from RUNNING, 2 from PENDING, owner first; thorough: 8 / 4, either first), request 2 by another runner (any of the 14 statuses); first actor and 2 preemptions "
                                            "(slices 0..26); in-memory: all; SQLite: from RUNNING with request 1 in {SUCCESS, RUNNING_RECOVERY, KILLED, RETRY}; oracle = some serial order of the specification table")
    ctx.functions_encoded += [
        "pynenc.invocation.status.status_record_transition (validate_transition, validate_ownership, compute_new_owner)",
        "BaseOrchestrator.set_invocation_status", "MemOrchestrator._atomic_status_transition",
        "MemOrchestrator._interanl_atomic_status_transition", "SQLiteOrchestrator._atomic_status_transition",
        "BaseOrchestrator.register_new_invocations",
    ]
    ctx.bounds = {
        "owner/requester strings (pure, mem)": f"len <= {maxlen}, any Unicode, incl. '' and None",
        "sqlite/memreal owner": "choice of {None,'r1','r2',''}; requester choice of {'r1','r2',''}",
        "pre-state": "every (status, owner): one symbolic step = inductive step",
        "sequences": "2 requests from REGISTERED" + (", 3 requests for accepted first requests (ids from 2)" if thorough else ""),
    }
    ctx.stubs = [
        "history writer threads run synchronously (ThreadingStandIn)",
        "mem_c*: state_backend.add_history and trigger.report_tasks_status replaced by recorders "
        "(symbolic runner-id strings explode in the runner-context cache); memreal_c*/sql_c* use the real ones with finite ids",
        "fresh real app per explored path (state reset), built untraced",
        "time() in mem_orchestrator/sqlite_orchestrator replaced by a fixed counter clock (auto-purge bookkeeping only)",
    ]
    ctx.assumptions = [
        "ids longer than the bound behave like short ones (the code only compares them for equality/truthiness)",
        "spec table transcribed from docs/_static/invocation_state_machine.svg + invocation_status.md",
        "KeyError path for unknown ids not covered",
    ]
    for name in ("pure_c4", "mem_c6", "sql_c4"):
        r = res.get(name)
        if r:
            ctx.samples.append({"obligation": name, "state": r.state, "paths": r.num_paths,
                                "meaning": "all (owner, requested status, requester) from the fixed current status index"})
