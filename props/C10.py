"""C10 — the recorded history of an invocation is exactly its sequence of status changes (DESIGN 3/C10).

CH (request sequences decided by the solver, real code run concretely): symbolic sequences of status requests
by two runners (valid and refused) through the public set_invocation_status on both backends, with the
background history writer threads replaced by deferred stand-ins that run late and in a symbolic order; after
the flush the stored history, ordered by the time of the change, must be exactly REGISTERED followed by the
successful changes, each naming the runner that made it; a second invocation's history is untouched.
"""

from engine.core import Cond, Ctx

SRC = r'''
from engine.hsupport import *
from engine import standins
from engine.specs.status_spec import STATUSES, spec_step
from pynenc.invocation.status import InvocationStatus as St
from pynenc.exceptions import InvocationStatusError
import pynenc.state_backend.base_state_backend as bsb
import pynenc.orchestrator.mem_orchestrator as _mo, pynenc.orchestrator.sqlite_orchestrator as _so
standins.patch_clock(standins.CounterClock(1_600_000_000.0), _mo, _so)
LAST_DETAIL = None
RID = ["r1", "r2"]

import datetime as _dt
class TickingDatetime(_dt.datetime):
    """strictly increasing now(): the creation time of a history record (real clock in production) never ties"""
    _n = 0
    @classmethod
    def now(cls, tz=None):
        cls._n += 1
        return _dt.datetime(2021, 1, 1, tzinfo=tz) + _dt.timedelta(milliseconds=cls._n)
bsb.datetime = TickingDatetime

def body() -> int:
    return 1

def run_seq(kind, reqs, order):
    """reqs: list of (status index, runner index). order: 0 writers run in start order, 1 reversed, 2 rotated."""
    global LAST_DETAIL
    reset_uuid()
    standins.install_sync_history()
    app = mk_app(kind, app_id="c10" + kind)
    task = app.task(body); warm_task(task)
    invs = new_invocations(app, task, 2)
    iid, other = invs[0].invocation_id, invs[1].invocation_id
    reg_runner = app.orchestrator.get_invocation_status_record(iid).runner_id
    other_before = [(h.status_record.status, h.runner_context_id) for h in app.state_backend.get_history(other)]
    standins.install_deferred_history()
    ctxs = [runner_ctx("r1"), runner_ctx("r2")]
    cur, owner = "registered", reg_runner
    expected = [("registered", reg_runner)]
    for (new, ri) in reqs:
        exp = spec_step(cur, owner, STATUSES[new], RID[ri])
        try:
            app.orchestrator.set_invocation_status(iid, St(STATUSES[new]), ctxs[ri])
            got = "ok"
        except InvocationStatusError:
            got = "refused"
        if (exp[0] == "ok") != (got == "ok"):
            LAST_DETAIL = {"why": "C10:transition-outcome-differs-from-spec", "req": (STATUSES[new], RID[ri]), "state": (cur, owner)}
            return False
        if got == "ok":
            cur, owner = exp[1], exp[2]
            expected.append((cur, RID[ri]))
    # late writers, in an adversarial order
    pend = list(standins.DeferredThread.pending)
    if order == 1:
        pend.reverse()
    elif order == 2 and len(pend) > 1:
        pend = pend[1:] + pend[:1]
    standins.DeferredThread.pending = []
    for t in pend:
        t.run_now()
    app.state_backend.wait_for_all_async_operations()
    hist = app.state_backend.get_history(iid)
    by_change = sorted(hist, key=lambda h: h.status_record.timestamp)
    got = [(h.status_record.status.value, h.runner_context_id) for h in by_change]
    ok = got == expected and all(h.invocation_id == iid for h in hist)
    # the changes of this history are made one after the other (each record is created right after its change), so the
    # history AS RETURNED (ordered by the stored history time) must be in change order too, however late the writers ran
    # (ordered by the time each entry carries, not by list position: the property does not promise a list order)
    returned = [(h.status_record.status.value, h.runner_context_id) for h in sorted(hist, key=lambda h: h.timestamp)]
    ok_returned = returned == expected
    other_after = [(h.status_record.status, h.runner_context_id) for h in app.state_backend.get_history(other)]
    ok = ok and other_after == other_before
    # ties in the change time would make the order ambiguous: require strictly increasing change times
    ts = [h.status_record.timestamp for h in by_change]
    strictly = all(a < b for a, b in zip(ts, ts[1:]))
    LAST_DETAIL = {"kind": kind, "requests": [(STATUSES[n], RID[r]) for n, r in reqs], "order": order, "expected": expected, "got": got,
                   "other": (other_before, other_after), "strict_times": strictly,
                   "returned": returned,
                   "why": ("C10:history-differs-from-changes" if other_after == other_before else "C10:other-invocation-history-touched") if not ok
                          else (None if ok_returned else "C10:history-entry-times-are-not-in-change-order")}
    return ok and strictly and ok_returned

def batch(kind, n, order):
    """a parallelize batch registered while the history writers are late: every invocation of the batch gets exactly its own REGISTERED entry"""
    global LAST_DETAIL
    reset_uuid()
    standins.install_deferred_history()
    app = mk_app(kind, app_id="c10b" + kind)
    task = app.task(body); warm_task(task)
    group = task.parallelize([() for _ in range(n)])
    ids = [i.invocation_id for i in group.invocations]
    pend = list(standins.DeferredThread.pending)
    if order == 1:
        pend.reverse()
    elif order == 2 and len(pend) > 1:
        pend = pend[1:] + pend[:1]
    standins.DeferredThread.pending = []
    for t in pend:
        t.run_now()
    app.state_backend.wait_for_all_async_operations()
    standins.install_sync_history()
    got = {}
    ok = True
    for iid in ids:
        hist = app.state_backend.get_history(iid)
        got[iid[-4:]] = [(h.invocation_id[-4:], h.status_record.status.value) for h in hist]
        reg = app.orchestrator.get_invocation_status_record(iid)
        if [(h.invocation_id, h.status_record.status.value, h.runner_context_id) for h in hist] != [(iid, "registered", reg.runner_id)]:
            ok = False
    LAST_DETAIL = {"kind": kind, "batch": n, "order": order, "histories": got, "why": None if ok else "C10:batch-registration:history-missing-duplicated-or-misattributed"}
    return ok

def batch_registration(kind_i: int, n: int, order: int) -> bool:
    """
    pre: 0 <= kind_i <= 1 and 1 <= n <= 4 and 0 <= order <= 2
    post: _
    """
    kind_i = pick(kind_i, 0, 1); n = pick(n, 1, 4); order = pick(order, 0, 2)
    with NoTracing():
        return batch(["mem", "sqlite"][kind_i], n, order)

def go(reqs, order):
    reqs = [(pick(n, 0, 13), pick(r, 0, 1)) for (n, r) in reqs]
    order = pick(order, 0, 2)
    with NoTracing():
        return run_seq("mem", reqs, order) and run_seq("sqlite", reqs, order)
'''

F2 = r'''
def seq2_n__N__(r1: int, n2: int, r2: int, order: int) -> bool:
    """
    pre: 0 <= r1 <= 1 and 0 <= n2 <= 13 and 0 <= r2 <= 1 and 0 <= order <= 2
    post: _
    """
    return go([(__N__, r1), (n2, r2)], order)
'''

F3 = r'''
def seq3_via__V___n__N__(r2: int, n3: int, r3: int, order: int) -> bool:
    """
    pre: 0 <= r2 <= 1 and 0 <= n3 <= 13 and 0 <= r3 <= 1 and 0 <= order <= 2
    post: _
    """
    # first request fixed: claim by r1 (-> PENDING), optionally then RUNNING by r1: reaches the owned statuses
    return go(__PREFIX__ + [(__N__, r2), (n3, r3)], order)
'''

EXTRA = r'''
def twin(n1: int, r1: int, order: int) -> bool:
    """
    pre: 0 <= n1 <= 13 and 0 <= r1 <= 1 and 0 <= order <= 2
    post: _
    """
    go([(n1, r1)], order)
    return False

def canary_duplicate(order: int) -> bool:
    """
    pre: 0 <= order <= 2
    post: _
    """
    # mutation canary: a status setter that writes history twice must be refuted
    import pynenc.orchestrator.base_orchestrator as bo
    orig = bo.BaseOrchestrator.set_invocation_status
    def dup(self, invocation_id, status, runner_ctx):
        orig(self, invocation_id, status, runner_ctx)
        self.app.state_backend.add_history(invocation_id, self.get_invocation_status_record(invocation_id), runner_ctx)
    bo.BaseOrchestrator.set_invocation_status = dup
    try:
        return go([(4, 0)], order)
    finally:
        bo.BaseOrchestrator.set_invocation_status = orig
'''


def run(ctx: Ctx) -> None:
    src = SRC
    conds = []
    P = 4  # index of "pending"
    R = 6  # running
    for n in range(14):
        src += F2.replace("__N__", str(n))
        conds.append(Cond(f"seq2_n{n}", "confirm", 600))
    for v, prefix in (("p", f"[({P}, 0)]"), ("pr", f"[({P}, 0), ({R}, 0)]")):
        for n in range(14):
            src += F3.replace("__V__", v).replace("__N__", str(n)).replace("__PREFIX__", prefix)
            conds.append(Cond(f"seq3_via{v}_n{n}", "confirm", 600))
    src += EXTRA
    conds += [Cond("batch_registration", "confirm", 300, keyfn=lambda a, k: "C10:batch-registration:history-missing-duplicated-or-misattributed"),
              Cond("twin", "refute", 60), Cond("canary_duplicate", "refute", 120)]
    ctx.ch_batch("c10", src, conds)
    from props import C10_sched
    C10_sched.run(ctx)
    ctx.functions_encoded += ["BaseOrchestrator.set_invocation_status/register_new_invocations", "BaseStateBackend.add_history/add_histories/get_history/wait_for_all_async_operations",
                              "Mem/SQLite _add_histories/_get_history", "Mem/SQLite _atomic_status_transition"]
    ctx.bounds = {"sequences": "2 free requests from REGISTERED; 2 free requests after [PENDING by r1] and after [PENDING, RUNNING by r1]; 14 statuses x 2 runners each",
                  "batch": "a parallelize batch of 1-4 invocations registered while the writers are late (start order / reversed / rotated), both backends",
                  "writers": "history writer threads deferred until after the last request and run in start order / reversed / rotated",
                  "backends": "in-memory and SQLite in the same path"}
    ctx.stubs += ["threading.Thread in base_state_backend -> DeferredThread (writers run when the harness says so)", "datetime.now in base_state_backend -> strictly increasing instants", "counter clock in orchestrators, deterministic uuid4"]
    ctx.assumptions += ["order is taken from the change time stored in each status record (InvocationStatusRecord.timestamp); with the real clock two changes are assumed not to share a microsecond",
                        "history ordered by the time each returned entry carries (InvocationHistory.timestamp, the creation time of the record) is claimed for changes made one after the other with arbitrarily late writers; "
                        "when a setter is preempted between its transition and the creation of its history record (part 2) only the order by change time is claimed"]
