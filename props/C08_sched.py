"""C08 part 2 (SCHED): concurrent retrievers and routers on the real brokers.

The real retrieve/route methods are rewritten into steppable generators (SQL-statement granularity on
SQLite with real sqlite3 locking, source-line granularity in memory). Symbolic: initial queue length,
the role of each actor, the first actor and the preemption points. Oracle: the observed results and the
final queue content are explained by some interleaving of the actors' atomic queue operations
(linearisable FIFO): no message delivered twice, none lost, order preserved.
"""

from engine.core import Cond, Ctx

SRC = r'''
import itertools
from engine.hsupport import *
from engine import coop
import pynenc.broker.sqlite_broker as sb
import pynenc.broker.mem_broker as mb

LAST_DETAIL = None
SQL_NAMES = ["retrieve_invocation", "send_message", "route_invocation", "route_invocations"]
MEM_NAMES = ["retrieve_invocation", "route_invocation", "route_invocations"]
ALL = set(SQL_NAMES + MEM_NAMES)
POINTS = {}

def install(drop_begin=False):
    coop.install_sqlite_standin()
    drop = None
    if drop_begin:
        import ast
        def drop(st):
            return isinstance(st, ast.Expr) and isinstance(st.value, ast.Call) and any(
                isinstance(a, ast.Constant) and a.value == "BEGIN IMMEDIATE" for a in st.value.args)
    POINTS.update({"sql." + k: v for k, v in coop.yieldify(sb.SQLiteBroker, SQL_NAMES, all_names=ALL, sql=True, drop_stmt=drop).items()})
    POINTS.update({"mem." + k: v for k, v in coop.yieldify(mb.MemBroker, MEM_NAMES, all_names=ALL).items()})

ROLES = ["retrieve", "route1", "route2"]

def actor_ops(role, i):
    if role == "retrieve":
        return [("get",)]
    if role == "route1":
        return [("put", f"n{i}a")]
    return [("put", f"n{i}a"), ("put", f"n{i}b")]

def explain(initial, actors_ops, results, final):
    """Is there an interleaving of the per-actor op sequences under which a sequential FIFO queue yields
    exactly `results` (per retriever) and `final`?"""
    n = len(actors_ops)
    def rec(pos, queue):
        if all(pos[i] == len(actors_ops[i]) for i in range(n)):
            return list(queue) == final
        for i in range(n):
            if pos[i] < len(actors_ops[i]):
                op = actors_ops[i][pos[i]]
                np_ = list(pos); np_[i] += 1
                if op[0] == "put":
                    if rec(np_, queue + [op[1]]):
                        return True
                else:
                    got = queue[0] if queue else None
                    if got == results[i] and rec(np_, queue[1:] if queue else queue):
                        return True
        return False
    return rec([0] * n, list(initial))

def conc(kind, q, roles, first, slices):
    global LAST_DETAIL
    app = mk_app(kind, app_id="c08s" + kind)
    br = app.broker
    initial = [f"m{j}" for j in range(q)]
    for m in initial:
        br.route_invocation(m)
    actors, ops = [], []
    for i, r in enumerate(roles):
        role = ROLES[r]
        ops.append(actor_ops(role, i))
        if role == "retrieve":
            g = br.retrieve_invocation__gen()
        elif role == "route1":
            g = br.route_invocation__gen(f"n{i}a")
        else:
            g = br.route_invocations__gen([f"n{i}a", f"n{i}b"])
        actors.append(coop.Actor(f"{role}{i}", g))
    res = coop.run_schedule(actors, first, slices)
    errors = [None if a.error is None else repr(a.error) for a in actors]
    results = [a.result for a in actors]
    coop.close_all_connections()
    count_after = br.count_invocations()
    final = []
    while True:
        x = br.retrieve_invocation()
        if x is None:
            break
        final.append(x)
    LAST_DETAIL = {"kind": kind, "initial": initial, "roles": [ROLES[r] for r in roles], "results": results, "errors": errors,
                   "final_queue": final, "count_before_drain": count_after, "schedule": res["schedule"]}
    if res["deadlock"] or any(errors):
        return False
    if count_after != len(final):
        return False
    return explain(initial, ops, results, final)
'''

F2 = r'''
def conc2___KIND_____FIRST__(q: int, r0: int, r1: int, k1: int, k2: int) -> bool:
    """
    pre: 0 <= q <= 2 and 0 <= r0 <= 2 and 0 <= r1 <= 2
    pre: 0 <= k1 <= KMAX and 0 <= k2 <= KMAX
    post: _
    """
    q = pick(q, 0, 2); r0 = pick(r0, 0, 2); r1 = pick(r1, 0, 2)
    with NoTracing():
        return conc(["mem", "sqlite"][__KIND__], q, [r0, r1], __FIRST__, [k1, k2])
'''

F3 = r'''
def conc3___KIND_____FIRST_____R0__(q: int, r1: int, r2: int, k1: int, k2: int, k3: int) -> bool:
    """
    pre: 1 <= q <= 2 and 0 <= r1 <= 2 and 0 <= r2 <= 2
    pre: 0 <= k1 <= KMAX and 0 <= k2 <= KMAX and 0 <= k3 <= KMAX
    post: _
    """
    q = pick(q, 1, 2); r1 = pick(r1, 0, 2); r2 = pick(r2, 0, 2)
    with NoTracing():
        return conc(["mem", "sqlite"][__KIND__], q, [__R0__, r1, r2], __FIRST__, [k1, k2, k3])
'''

TWIN = r'''
def twin(q: int, r0: int, r1: int, k1: int) -> bool:
    """
    pre: 0 <= q <= 2 and 0 <= r0 <= 2 and 0 <= r1 <= 2 and 0 <= k1 <= KMAX
    post: _
    """
    q = pick(q, 0, 2); r0 = pick(r0, 0, 2); r1 = pick(r1, 0, 2)
    with NoTracing():
        conc("sqlite", q, [r0, r1], 0, [k1])
    return False
'''


def run(ctx: Ctx) -> None:
    thorough = ctx.tier == "thorough"
    kmax = 8  # retrieve has 7 yield points at statement granularity; route_invocations (2 msgs) fewer than 8 per message
    src = SRC + "\ninstall(False)\n"
    conds = []
    for kind in (0, 1):
        for first in (0, 1):
            src += F2.replace("__KIND__", str(kind)).replace("__FIRST__", str(first)).replace("KMAX", str(kmax))
            conds.append(Cond(f"conc2_{kind}_{first}", "confirm", 900))
    if thorough:
        for first in (0, 1, 2):
            for r0 in (0, 1, 2):
                src += F3.replace("__KIND__", "1").replace("__FIRST__", str(first)).replace("__R0__", str(r0)).replace("KMAX", str(kmax))
                conds.append(Cond(f"conc3_1_{first}_{r0}", "confirm", 3000))
    src += TWIN.replace("KMAX", str(kmax))
    conds.append(Cond("twin", "refute", 120))
    ctx.ch_batch("c08conc", src, conds)
    # canary: BEGIN IMMEDIATE removed from retrieve_invocation in the AST (scratch copy of the source; /repo untouched)
    csrc = SRC + "\ninstall(True)\n" + F2.replace("__KIND__", "1").replace("__FIRST__", "0").replace("KMAX", str(kmax))
    ctx.ch_batch("c08conc_canary", csrc, [Cond("conc2_1_0", "refute", 600)])
    ctx.functions_encoded += ["SQLiteBroker.retrieve_invocation/send_message/route_invocation/route_invocations (statement-level twins)",
                              "MemBroker.retrieve_invocation/route_invocation/route_invocations (line-level twins)"]
    ctx.bounds["concurrent"] = (f"2 actors (thorough: 3 on SQLite) with roles in {{retrieve, route one, route batch of two}}, initial queue 0..2, "
                                f"2 (3) preemptions with slices 0..{kmax}; oracle: linearisable FIFO incl. final queue order")
    ctx.stubs += ["sqlite3 connections with timeout=0; 'database is locked' = BLOCKED and retried when rescheduled"]
