"""C16 — in-memory and SQLite backends are observationally equivalent (DESIGN 3/C16).

CH differential (op codes decided by the solver; both real stacks run concretely in the same path): the same
symbolic operation sequence is applied to a fresh in-memory app and a fresh SQLite app; after every operation
the return value / error type and a full read-out through the public observers are compared (sets where the
order is unspecified). Component alphabets: orchestrator (+ heartbeats, recovery scans, wait graph, auto-purge,
pagination, retries), state backend + broker + client data store, trigger store (claims, cron CAS, conditions).
Other differential checks that also run both backends against a reference model: C01, C07, C08, C09, C10.
"""

import re

from engine.core import Cond, Ctx

SRC = r'''
from datetime import datetime, UTC, timedelta
from engine.hsupport import *
from engine import standins
from pynenc.invocation.status import InvocationStatus as St
from pynenc.exceptions import InvocationStatusError
import pynenc.orchestrator.mem_orchestrator as mo, pynenc.orchestrator.sqlite_orchestrator as so
standins.install_sync_history()
CLOCK = standins.CounterClock(1_700_000_000.0)
standins.patch_clock(CLOCK, mo, so)
LAST_DETAIL = None

def task_a(x: int = 0) -> int:
    return x
def task_b(x: int = 0) -> int:
    return x

class World:
    def __init__(self, kind):
        self.kind = kind
        self.app = mk_app(kind, app_id="c16" + kind, runner_considered_dead_after_minutes=1.0, max_pending_seconds=30.0,
                          auto_final_invocation_purge_hours=0.0)
        self.ta = self.app.task(task_a); self.tb = self.app.task(task_b)
        warm_task(self.ta); warm_task(self.tb)
        self.ctx = {"r1": runner_ctx("r1"), "r2": runner_ctx("r2")}
        from pynenc.trigger.conditions.cron import CronCondition
        self.cron = CronCondition("*/5 * * * *")
        self.app.trigger.register_condition(self.cron)     # a registered condition: cron bookkeeping is only defined for those
        self.invs = []       # creation order
        self.alias = {}      # invocation id -> stable name i0, i1, ...

    def name(self, iid):
        return self.alias.get(iid, "?" + str(iid)[:6])

    def names(self, ids):
        return sorted(self.name(i) for i in ids)

    def first(self, status):
        for inv in self.invs:
            if self.app.orchestrator.get_invocation_status(inv.invocation_id) == status:
                return inv
        return None

def safe(fn):
    try:
        return ("ok", fn())
    except InvocationStatusError as e:
        return ("status-error", type(e).__name__)
    except KeyError:
        return ("KeyError",)
    except Exception as e:
        return ("raised", type(e).__name__)

# ------------------------------------------------------------------ orchestrator alphabet
def orch_op(w, op):
    o = w.app.orchestrator
    if op in (0, 1, 2):
        t, x = [(w.ta, 0), (w.ta, 1), (w.tb, 0)][op]
        inv = t(x)
        w.invs.append(inv); w.alias[inv.invocation_id] = f"i{len(w.invs)-1}"
        return ("registered", w.name(inv.invocation_id))
    if op == 3:
        inv = w.first(St.REGISTERED)
        return safe(lambda: o.set_invocation_status(inv.invocation_id, St.PENDING, w.ctx["r1"])) if inv else None
    if op == 4:
        inv = w.first(St.PENDING)
        return safe(lambda: o.set_invocation_status(inv.invocation_id, St.RUNNING, w.ctx["r1"])) if inv else None
    if op == 5:
        inv = w.first(St.RUNNING)
        return safe(lambda: o.set_invocation_result(inv, 5, w.ctx["r1"])) if inv else None
    if op == 6:
        inv = w.first(St.RUNNING)
        return safe(lambda: o.set_invocation_retry(inv.invocation_id, RuntimeError("x"), w.ctx["r1"])) if inv else None
    if op == 7:
        return safe(lambda: o.register_runner_heartbeats(["r1"], can_run_atomic_service=True))
    if op == 8:
        return safe(lambda: o.register_runner_heartbeats(["r1", "r2"]))
    if op == 9:
        CLOCK.now += 61.0
        return None
    if op == 10:
        return safe(lambda: o.auto_purge())
    if op == 11:
        if len(w.invs) >= 2:
            return safe(lambda: o.waiting_for_results(w.invs[0].invocation_id, [w.invs[1].invocation_id]))
        return None
    if op == 12:
        inv = w.first(St.RUNNING)
        return safe(lambda: o.set_invocation_status(inv.invocation_id, St.SUCCESS, w.ctx["r2"])) if inv else None   # non-owner: refused
    if op == 13:
        got = safe(lambda: [i.invocation_id for i in o.get_invocations_to_run(2, w.ctx["r2"])])
        return (got[0], w.names(got[1])) if got[0] == "ok" else got
    return None

def orch_readout(w):
    o = w.app.orchestrator
    ids = [i.invocation_id for i in w.invs]
    out = {}
    out["count"] = o.count_invocations()
    out["count_a"] = o.count_invocations(task_id=w.ta.task_id)
    for st in (St.REGISTERED, St.PENDING, St.RUNNING, St.SUCCESS, St.RETRY):
        out["n_" + st.value] = o.count_invocations(statuses=[st])
        out["ids_" + st.value] = w.names(o.get_existing_invocations(w.ta, None, [st]))
    out["task_a"] = w.names(o.get_task_invocation_ids(w.ta.task_id))
    out["page_all"] = w.names(o.get_invocation_ids_paginated(limit=10, offset=0))
    out["page_len"] = (len(o.get_invocation_ids_paginated(limit=1, offset=0)), len(o.get_invocation_ids_paginated(limit=2, offset=1)),
                       len(o.get_invocation_ids_paginated(task_id=w.tb.task_id, statuses=[St.REGISTERED], limit=5, offset=0)))
    present = []
    for i in ids:
        r = safe(lambda: o.get_invocation_status_record(i))
        if r[0] == "ok":
            present.append((w.name(i), r[1].status.value, r[1].runner_id, o.get_invocation_retries(i)))
        else:
            present.append((w.name(i), r[0]))
    out["records"] = present
    alive = [i for i in ids if safe(lambda: o.get_invocation_status(i))[0] == "ok"]
    out["final"] = w.names(o.filter_final(alive)) if alive else []
    out["filter"] = w.names(o.filter_by_status(alive, frozenset({St.REGISTERED, St.RETRY}))) if alive else []
    if w.invs:
        c = w.invs[0].call
        out["by_call"] = w.names(o.get_call_invocation_ids(c.call_id))
        out["by_args"] = w.names(o.get_existing_invocations(w.ta, c.serialized_arguments, [St.REGISTERED, St.PENDING, St.RUNNING]))
    out["active"] = sorted(r.runner_id for r in o.get_active_runners())
    out["active_atomic"] = sorted(r.runner_id for r in o.get_active_runners(can_run_atomic_service=True))
    out["rec_pending"] = w.names(o.get_pending_invocations_for_recovery())
    out["rec_running"] = w.names(o.get_running_invocations_for_recovery())
    out["blocking"] = w.names(o.get_blocking_invocations(10))
    out["queue"] = w.app.broker.count_invocations()
    return out

# ------------------------------------------------------------------ state backend / broker / client data alphabet
def store_op(w, op):
    sb, br, cds = w.app.state_backend, w.app.broker, w.app.client_data_store
    if op == 0:
        inv = w.ta(len(w.invs))
        w.invs.append(inv); w.alias[inv.invocation_id] = f"i{len(w.invs)-1}"
        return "new"
    iid = w.invs[0].invocation_id if w.invs else "missing-id"
    if op == 1:
        return safe(lambda: sb.set_result(iid, {"v": [1, "two"]}))
    if op == 2:
        return safe(lambda: sb.get_result(iid))
    if op == 3:
        return safe(lambda: sb.set_exception(iid, ValueError("bad", 3)))
    if op == 4:
        r = safe(lambda: sb.get_exception(iid))
        return (r[0], type(r[1]).__name__, r[1].args) if r[0] == "ok" else r
    if op == 5:
        if w.invs:
            return safe(lambda: sb.set_workflow_data(w.invs[0].workflow, "k", {"n": 1}))
        return None
    if op == 6:
        if w.invs:
            return safe(lambda: sb.get_workflow_data(w.invs[0].workflow, "k", "dflt"))
        return None
    if op == 7:
        return safe(lambda: br.route_invocations(["q1", "q2"]))
    if op == 8:
        return safe(lambda: br.retrieve_invocation()) if not w.invs else safe(lambda: w.name(br.retrieve_invocation()) if br.count_invocations() else None)
    if op == 9:
        ref = safe(lambda: cds.serialize("x" * 2000))
        if ref[0] == "ok":
            cds._deserialized_cache.clear()
            return ("ok", cds.is_reference(ref[1]), safe(lambda: cds.resolve(ref[1]))[0])
        return ref
    if op == 10:
        return safe(lambda: sb.purge())
    if op == 11:
        r = safe(lambda: sb.get_invocation(iid))
        return (r[0], w.name(r[1].invocation_id), r[1].call.arguments.kwargs) if r[0] == "ok" else r
    return None

def store_readout(w):
    sb = w.app.state_backend
    out = {"queue": w.app.broker.count_invocations()}
    hist = []
    for inv in w.invs:
        r = safe(lambda: [(h.status_record.status.value, h.runner_context_id) for h in sb.get_history(inv.invocation_id)])
        hist.append((w.name(inv.invocation_id), r))
    out["history"] = hist
    if w.invs:
        out["children"] = w.names(sb.get_child_invocations(w.invs[0].invocation_id))
        out["wf_types"] = sorted(t.key for t in sb.get_all_workflow_types())
    return out

# ------------------------------------------------------------------ state backend alphabet 2: time-range iterators, runner contexts, workflow bookkeeping
import pynenc.state_backend.base_state_backend as _bsb
class HistoryClock(datetime):
    """creation time of history records: frozen unless an op moves it (several records can share one instant)"""
    t = datetime(2024, 5, 1, 12, 0, 0, tzinfo=UTC)
    @classmethod
    def now(cls, tz=None):
        return HistoryClock.t
_bsb.datetime = HistoryClock
H0 = datetime(2024, 5, 1, 12, 0, 0, tzinfo=UTC)

def store2_op(w, op):
    sb = w.app.state_backend
    if op in (0, 1):
        inv = (w.ta if op == 0 else w.tb)(len(w.invs))          # registered at the current (frozen) history instant
        w.invs.append(inv); w.alias[inv.invocation_id] = f"i{len(w.invs)-1}"
        return "new"
    if op == 2:
        HistoryClock.t = HistoryClock.t + timedelta(microseconds=1000)   # a later change of the same invocation is a later instant
        if not w.invs:
            return None
        return safe(lambda: w.app.orchestrator.set_invocation_status(w.invs[0].invocation_id, St.PENDING, w.ctx["r1"]))
    if op == 3:
        HistoryClock.t = HistoryClock.t + timedelta(seconds=1)
        return None
    if op == 4:
        return safe(lambda: sb.store_runner_context(w.ctx["r1"]))
    if op == 5:
        return safe(lambda: sb.store_runner_context(runner_ctx("r2x")))
    if op == 6:
        if len(w.invs) >= 1:
            return safe(lambda: sb.store_workflow_sub_invocation(w.invs[0].workflow.workflow_id, w.invs[-1].invocation_id))
        return None
    if op == 7:
        if w.invs:
            return safe(lambda: sb.store_workflow_run(w.invs[-1].workflow))
        return None
    if op == 8:
        return safe(lambda: sb.purge())
    return None

def store2_readout(w):
    sb = w.app.state_backend
    lo, hi = H0 - timedelta(hours=1), H0 + timedelta(hours=1)
    def hist(a, b, size):
        return sorted((w.name(h.invocation_id), h.status_record.status.value) for batch in sb.iter_history_in_timerange(a, b, size) for h in batch)
    def invs(a, b, size):
        return sorted(w.name(i) for batch in sb.iter_invocations_in_timerange(a, b, size) for i in batch)
    out = {
        "hist_all_pages_of_2": safe(lambda: hist(lo, hi, 2)),
        "hist_all_pages_of_1": safe(lambda: hist(lo, hi, 1)),
        "hist_all_one_page": safe(lambda: hist(lo, hi, 100)),
        "hist_first_instant_only": safe(lambda: hist(H0, H0, 2)),
        "hist_after_first_second": safe(lambda: hist(H0 + timedelta(seconds=1), hi, 2)),
        "invs_pages_of_2": safe(lambda: invs(lo, hi, 2)),
        "invs_first_instant": safe(lambda: invs(H0, H0, 1)),
        "runner_r1": safe(lambda: (sb.get_runner_context("r1") or None) and sb.get_runner_context("r1").runner_id),
        "runners": safe(lambda: sorted(c.runner_id for c in sb.get_runner_contexts(["r1", "r2x", "zz"]))),
        "runners_like_r": safe(lambda: sorted(c.runner_id for c in sb.get_matching_runner_contexts("r"))),
        "wf_types": safe(lambda: sorted(t.key for t in sb.get_all_workflow_types())),
        "wf_runs_all": safe(lambda: sorted(w.name(x.workflow_id) for x in sb.get_all_workflow_runs())),
        "wf_runs_a": safe(lambda: sorted(w.name(x.workflow_id) for x in sb.get_workflow_runs(w.ta.task_id))),
    }
    if w.invs:
        wid = w.invs[0].workflow.workflow_id
        out["wf_sub"] = safe(lambda: w.names(sb.get_workflow_sub_invocations(wid)))
        out["ids_by_wf"] = safe(lambda: w.names(sb.get_invocation_ids_by_workflow(workflow_id=wid)))
        out["ids_by_type"] = safe(lambda: w.names(sb.get_invocation_ids_by_workflow(workflow_type_key=w.ta.task_id.key)))
    return out

# ------------------------------------------------------------------ trigger store alphabet
def trig_op(w, op):
    t = w.app.trigger
    T0 = datetime(2024, 1, 1, tzinfo=UTC)
    CID = w.cron.condition_id
    if op in (2, 3, 4) and t.get_condition(CID) is None:
        return None     # cron bookkeeping is only defined for a registered condition (purge un-registers it)
    if op == 0:
        return safe(lambda: t.claim_trigger_run("run-A"))
    if op == 1:
        return safe(lambda: t.claim_trigger_run("run-B", expiration_seconds=0))
    if op == 2:
        return safe(lambda: t.store_last_cron_execution(CID, T0, expected_last_execution=None))
    if op == 3:
        return safe(lambda: t.store_last_cron_execution(CID, T0 + timedelta(minutes=5), expected_last_execution=T0))
    if op == 4:
        return safe(lambda: t.store_last_cron_execution(CID, T0 + timedelta(minutes=9), expected_last_execution=T0 + timedelta(minutes=1)))
    if op == 5:
        return safe(lambda: t.get_last_cron_execution(w.cron.condition_id))
    if op == 6:
        return safe(lambda: t.emit_event("evt", {"a": 1}) and None)
    if op == 7:
        return safe(lambda: sorted(t.get_valid_conditions().keys()) and None)
    if op == 8:
        return safe(lambda: t.purge())
    if op == 9:
        return safe(lambda: t.claim_trigger_run("run-B"))                       # live claim (60 s) on the id that op 1 claims with an expired one
    if op == 10:
        return safe(lambda: t.claim_trigger_execution("trig-1", "vc-1", expiration_seconds=0))
    if op == 11:
        return safe(lambda: t.claim_trigger_execution("trig-1", "vc-1"))
    return None

def trig_readout(w):
    t = w.app.trigger
    return {"last_cron": safe(lambda: t.get_last_cron_execution(w.cron.condition_id)), "cond": t.get_condition(w.cron.condition_id) is not None, "n_valid": len(t.get_valid_conditions()),
            "claim_again": None}

# ------------------------------------------------------------------ wait-graph alphabet (3 pre-registered invocations)
WG = [(x, y) for x in range(3) for y in range(3) if x != y]      # 6 wait declarations
def wg_op(w, op):
    o = w.app.orchestrator
    while len(w.invs) < 3:
        inv = w.ta(len(w.invs))
        w.invs.append(inv); w.alias[inv.invocation_id] = f"i{len(w.invs)-1}"
    ids = [i.invocation_id for i in w.invs]
    if op < 6:
        x, y = WG[op]
        if o.get_invocation_status(ids[x]).is_final() or o.get_invocation_status(ids[y]).is_final():
            return None
        return safe(lambda: o.waiting_for_results(ids[x], [ids[y]]))
    if op < 9:
        iid = ids[op - 6]
        def finish():
            st = o.get_invocation_status(iid)
            if st == St.REGISTERED:
                o.set_invocation_status(iid, St.PENDING, w.ctx["r1"]); st = St.PENDING
            if st == St.PENDING:
                o.set_invocation_status(iid, St.RUNNING, w.ctx["r1"]); st = St.RUNNING
            if st == St.RUNNING:
                o.set_invocation_status(iid, St.SUCCESS, w.ctx["r1"])
        return safe(finish)
    iid = ids[op - 9]
    return safe(lambda: o.set_invocation_status(iid, St.PENDING, w.ctx["r1"]))

def wg_readout(w):
    o = w.app.orchestrator
    return {"blocking": w.names(o.get_blocking_invocations(10)), "n1": len(list(o.get_blocking_invocations(1))),
            "status": [o.get_invocation_status(i.invocation_id).value for i in w.invs]}

ALPHABETS = {"orch": (orch_op, orch_readout, 14), "store": (store_op, store_readout, 12), "store2": (store2_op, store2_readout, 9), "trig": (trig_op, trig_readout, 12), "wg": (wg_op, wg_readout, 12)}

def differential(comp, ops):
    global LAST_DETAIL
    op_fn, read_fn, _ = ALPHABETS[comp]
    worlds = []
    for kind in ("mem", "sqlite"):
        reset_uuid()
        CLOCK.now = 1_700_000_000.0
        HistoryClock.t = H0
        worlds.append(World(kind))
    log = []
    for op in ops:
        obs = []
        for w in worlds:
            saved, hsaved = CLOCK.now, HistoryClock.t
            r = op_fn(w, op)
            after, hafter = CLOCK.now, HistoryClock.t
            obs.append((r, read_fn(w)))
            if w is worlds[0]:
                CLOCK.now, HistoryClock.t = saved, hsaved      # both worlds see the same clocks: replay the advance for the second one
        CLOCK.now, HistoryClock.t = after, hafter
        log.append(op)
        if obs[0] != obs[1]:
            diff = [k for k in obs[0][1] if obs[0][1].get(k) != obs[1][1].get(k)]
            LAST_DETAIL = {"component": comp, "ops": log, "mem": str(obs[0])[:1500], "sqlite": str(obs[1])[:1500], "differs_in": ("return" if obs[0][0] != obs[1][0] else diff),
                           "why": f"C16:{comp}:op{op}:" + ("return" if obs[0][0] != obs[1][0] else ",".join(diff[:3]))}
            return False
    return True

def go(comp, ops, n):
    ops = [pick(o, 0, ALPHABETS[comp][2] - 1) for o in ops]
    with NoTracing():
        return differential(comp, ops)
'''

F = r'''
def diff___COMP_____A__(o2: int, o3: int__XS__) -> bool:
    """
    pre: 0 <= o2 < __N__ and 0 <= o3 < __N____XP__
    post: _
    """
    return go("__COMP__", [__A__, o2, o3__XA__], __N__)
'''

EXTRA = r'''
def twin(o1: int, o2: int) -> bool:
    """
    pre: 0 <= o1 < 14 and 0 <= o2 < 14
    post: _
    """
    go("orch", [o1, o2], 14)
    return False

def canary(o2: int) -> bool:
    """
    pre: 0 <= o2 < 14
    post: _
    """
    # mutation canary: a SQLite orchestrator whose count ignores the status filter must be told apart
    orig = so.SQLiteOrchestrator.count_invocations
    so.SQLiteOrchestrator.count_invocations = lambda self, task_id=None, statuses=None: orig(self, task_id, None)
    try:
        return go("orch", [0, 3, o2], 14)
    finally:
        so.SQLiteOrchestrator.count_invocations = orig
'''


def _key_from_replay(args, kwargs, replay_out):
    m = re.search(r"'why': '([^']+)'", replay_out or "")
    return m.group(1) if m else "C16:unclassified"


def run(ctx: Ctx) -> None:
    thorough = ctx.tier == "thorough"
    src = SRC
    conds = []
    for comp, n in (("orch", 14), ("store", 12), ("store2", 9), ("trig", 12), ("wg", 12)):
        for a in range(n):
            f = F.replace("__COMP__", comp).replace("__A__", str(a)).replace("__N__", str(n))
            if thorough:
                f = f.replace("__XS__", ", o4: int").replace("__XP__", f" and 0 <= o4 < {n}").replace("__XA__", ", o4")
            else:
                f = f.replace("__XS__", "").replace("__XP__", "").replace("__XA__", "")
            src += f
            conds.append(Cond(f"diff_{comp}_{a}", "confirm", 3000 if thorough else 900, keyfn=_key_from_replay))
    src += EXTRA
    conds += [Cond("twin", "refute", 60), Cond("canary", "refute", 120)]
    ctx.ch_batch("c16", src, conds)
    ctx.functions_encoded += ["every public method of Mem/SQLite Orchestrator used by the alphabet (register, status change, queries by task/call/arguments/status, pagination, counts, filters, retries, heartbeats, active runners, recovery scans, auto-purge, wait graph)",
                              "Mem/SQLite StateBackend (results, exceptions, history, workflow data, invocation lookup, purge), Broker, ClientDataStore",
                              "Mem/SQLite Trigger store (claim_trigger_run, claim_trigger_execution (expired and live claims), store/get_last_cron_execution, emit_event, valid conditions, purge)"]
    ctx.bounds = {"sequences": f"{4 if thorough else 3} operations per component alphabet (orchestrator 14 letters, stores 12 + 9 (time-range iterators with shared instants, runner contexts, workflow bookkeeping), trigger store 12, wait graph 12), split by first letter",
                  "universe": "2 tasks, up to 3-4 invocations, 2 runners, controlled clock (advance 61 s; heartbeat timeout 60 s, pending limit 30 s, purge age 0)"}
    ctx.stubs += ["counter clock in both orchestrator modules", "sync history threads", "deterministic uuid4"]
    ctx.assumptions += ["'seeded random sequences of a few hundred operations' from the property text are sampling and are not part of this family's claim",
                        "trigger-store expiry uses the real wall clock (expiration 0 s / 60 s)"]
