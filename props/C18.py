"""C18 — workflow operations replay deterministically and never mix between workflows (DESIGN 3/C18).

CH (script, re-execution history and workflow alternation decided by the solver; real code run concretely):
a task body issues a symbolic sequence of wf.random / wf.utc_now / wf.uuid / wf.execute_task operations; it is
executed through the real DistributedInvocation.run several times for two workflows, in the same process image
or with the Task's per-process caches reset ("fresh process image"). Oracle: per workflow the n-th value equals
that of the first execution, stored records never appear under the other workflow, sub-tasks launch once.
"""

import re

from engine.core import Cond, Ctx

SRC = r'''
from engine.hsupport import *
from engine import standins
from pynenc.invocation.status import InvocationStatus as St
from pynenc.exceptions import RetryError

standins.install_sync_history()
import pynenc.orchestrator.mem_orchestrator as _mo, pynenc.orchestrator.sqlite_orchestrator as _so
standins.patch_clock(standins.CounterClock(1_600_000_000.0), _mo, _so)
LAST_DETAIL = None
SCRIPT = []
VALUES = []
APP = [None]

def child(x: int) -> int:
    return x

def main_task(tag: int) -> int:
    t = APP[0]["main"]
    vals = []
    for op in SCRIPT:
        if op == 0:
            vals.append(("random", t.wf.random()))
        elif op == 1:
            vals.append(("time", t.wf.utc_now().isoformat()))
        elif op == 2:
            vals.append(("uuid", t.wf.uuid()))
        else:
            inv = t.wf.execute_task(APP[0]["child"], op - 3)
            vals.append(("child", inv.invocation_id))
    VALUES.append(vals)
    raise RetryError("run me again")      # stay re-executable: RETRY + re-queue

NOPS = 5

def history(kind, script, execs):
    """execs: list of (workflow index, fresh-process-image flag)"""
    global LAST_DETAIL, SCRIPT
    reset_uuid()
    app = mk_app(kind, app_id="c18" + kind)
    main = app.task(max_retries=50)(main_task)
    ch = app.task(child)
    warm_task(main); warm_task(ch)
    APP[0] = {"main": main, "child": ch}
    SCRIPT = list(script)
    ctx = runner_ctx("r1")
    invs = [main(0), main(1)]                       # two top-level calls = two workflows
    wf = [i.workflow for i in invs]
    per_wf = {0: [], 1: []}
    log = []
    keep = []     # a runner keeps the invocation objects of finished attempts around (thread table) while the next attempt runs
    for (w, fresh) in execs:
        if fresh:
            # fresh process image: per-process caches of the Task object are gone
            main.__dict__.pop("wf", None)
        iid = invs[w].invocation_id
        inv = app.state_backend.get_invocation(iid)   # what a runner gets: a new invocation object
        keep.append(inv)
        app.orchestrator.set_invocation_status(iid, St.PENDING, ctx)
        VALUES.clear()
        inv.run(ctx)
        if len(VALUES) != 1:
            LAST_DETAIL = {"why": "C18:body-did-not-run-once", "log": log}
            return False
        per_wf[w].append(list(VALUES[0]))
        log.append((w, fresh, VALUES[0]))
    def fail(why):
        global LAST_DETAIL
        LAST_DETAIL = {"kind": kind, "script": script, "execs": execs, "log": log, "why": why}
        return False
    for w in (0, 1):
        runs = per_wf[w]
        for r in runs[1:]:
            if r != runs[0]:
                return fail("C18:re-execution-got-different-values")
    # records of different workflows never mix
    counts = {"random": script.count(0), "time": script.count(1), "uuid": script.count(2)}
    for w in (0, 1):
        for op, n in counts.items():
            for k in range(1, 4):
                rec = app.state_backend.get_workflow_data(wf[w], f"{op}:{k}")
                should = bool(per_wf[w]) and k <= n
                if (rec is not None) != should:
                    return fail(f"C18:workflow-data-misplaced:{op}:{k}:wf{w}:{'missing' if should else 'unexpected'}")
    # each workflow's sub-task launched once per (workflow, identical call)
    child_ids = list(app.orchestrator.get_task_invocation_ids(ch.task_id))
    expected = sum(len({op for op in script if op >= 3}) for w in (0, 1) if per_wf[w])
    if len(child_ids) != expected:
        return fail(f"C18:sub-task-launch-count:{len(child_ids)}!={expected}")
    # values of different workflows differ where the seed is the workflow id (random/uuid): no cross-workflow reuse
    if per_wf[0] and per_wf[1]:
        for a, b in zip(per_wf[0][0], per_wf[1][0]):
            if a[0] in ("uuid", "child") and a[1] == b[1]:
                return fail("C18:value-shared-between-workflows")
    LAST_DETAIL = {"log": log}
    return True

def go(kind_i, script, execs):
    kind_i = pick(kind_i, 0, 1)
    script = [pick(o, 0, NOPS - 1) for o in script]
    execs = [(pick(w, 0, 1), pick(f, 0, 1)) for (w, f) in execs]
    with NoTracing():
        return history(["mem", "sqlite"][kind_i], script, execs)
'''

F = r'''
def replay_s__S___n__N__(kind_i: int, s2: int, w1: int, f1: int, w2: int, f2: int, w3: int, f3: int) -> bool:
    """
    pre: 0 <= kind_i <= 1 and 0 <= s2 < NOPS
    pre: 0 <= w1 <= 1 and 0 <= f1 <= 1 and 0 <= w2 <= 1 and 0 <= f2 <= 1 and 0 <= w3 <= 1 and 0 <= f3 <= 1
    post: _
    """
    return go(kind_i, [__S__, s2], [(w1, f1), (w2, f2), (w3, f3)][:__N__])
'''

EXTRA = r'''
def twin(kind_i: int, s1: int, w1: int, f1: int) -> bool:
    """
    pre: 0 <= kind_i <= 1 and 0 <= s1 < NOPS and 0 <= w1 <= 1 and 0 <= f1 <= 1
    post: _
    """
    go(kind_i, [s1], [(w1, f1)])
    return False

def canary_counter(w2: int) -> bool:
    """
    pre: 0 <= w2 <= 1
    post: _
    """
    # mutation canary: an executor whose counters never restart (shared across executions) must be refuted
    from pynenc.workflow.workflow_context import WorkflowContext
    from pynenc.workflow.workflow_deterministic import DeterministicExecutor
    shared = {}
    orig = WorkflowContext.deterministic
    def bad(self):
        if "x" not in shared:
            shared["x"] = DeterministicExecutor(self.task.invocation.workflow, self.task.app)
        return shared["x"]
    WorkflowContext.deterministic = property(bad)
    try:
        return go(0, [0, 2], [(0, 0), (w2, 0)])
    finally:
        WorkflowContext.deterministic = orig
'''


def _key_from_replay(args, kwargs, replay_out):
    m = re.search(r"'why': '([^']+)'", replay_out or "")
    why = m.group(1) if m else "C18:unclassified"
    return re.sub(r":(random|time|uuid):\d+:wf\d:(missing|unexpected)$", "", why)


def run(ctx: Ctx) -> None:
    thorough = ctx.tier == "thorough"
    src = SRC
    conds = []
    for s in range(5):
        for n in ((2, 3) if thorough else (2, 3)):
            src += F.replace("__S__", str(s)).replace("__N__", str(n))
            conds.append(Cond(f"replay_s{s}_n{n}", "confirm", 900, keyfn=_key_from_replay))
    src += EXTRA
    conds += [Cond("twin", "refute", 60), Cond("canary_counter", "refute", 120)]
    ctx.ch_batch("c18", src, conds)
    ctx.functions_encoded += ["Task.wf / WorkflowContext.deterministic", "DeterministicExecutor._deterministic_operation/random/utc_now/uuid/execute_task",
                              "DistributedInvocation.run (context swap, retry path)", "state backends get/set_workflow_data (mem and SQLite)"]
    ctx.bounds = {"script": "2 operations out of {random, utc_now, uuid, execute_task(child,0), execute_task(child,1)}",
                  "history": "2 or 3 executions, each for workflow 0 or 1, each in the same process image or a fresh one (Task caches reset)",
                  "backends": "in-memory and SQLite"}
    ctx.stubs += ["the body ends with RetryError so that the same invocation can be executed again (RETRY + re-queue)",
                  "fresh process image = the Task object's cached workflow helper dropped", "sync history threads, counter clock, deterministic uuid4"]
    from props import C18_sched
    C18_sched.run(ctx)
    ctx.assumptions += ["part 1 alternates executions sequentially; part 2 (C18_sched) interleaves two different workflows at line level; "
                        "two concurrent executions of the SAME workflow's body (stale run + recovery) are not claimed (the property speaks of later executions)"]
