"""C17 — applications with different ids are fully isolated, for any id string (DESIGN 3/C17).

Part 1 (SMT, strsym): the current source of sanitize_table_prefix is executed over bounded character
arrays (every length 0..32, code points 0..0x10FFFF): every output character is in [A-Za-z0-9_], the first
is not a digit -> every f-string table name is a bare SQL identifier.
Part 2 (SMT + replay): can a table of app B match the LIKE pattern with which app A purges a component?
Part 3 (CH, finite): operation-level isolation for pairs of adversarial ids on one database file / process.
"""

from __future__ import annotations

import time

from engine.core import Cond, Ctx

MAXLEN = 32
COMPONENTS = ["orchestrator", "broker", "state_backend", "trigger", "client_data_store"]


def _safety_queries(ctx: Ctx) -> None:
    import z3
    from engine import strsym
    from pynenc.util import sqlite_utils as su

    t0 = time.time()
    n_paths = 0
    for n in range(0, MAXLEN + 1):
        it = strsym.StrInterp()
        chars = [z3.Int(f"c{i}") for i in range(n)]
        dom = [z3.And(c >= 0, c <= 0x10FFFF) for c in chars]
        try:
            paths = it.run(su.sanitize_table_prefix, strsym.SymStr(chars))
        except strsym.Unsupported as e:
            ctx.oblige(f"sql-safe.len{n}", None, f"Unsupported: {e}")
            continue
        ok_all = True
        detail = ""
        for pc, res in paths:
            n_paths += 1
            if not isinstance(res, strsym.SymStr):
                ok_all = False
                detail = f"result is {type(res).__name__}"
                break
            rc = res.chars
            axioms = strsym.ascii_axioms(rc + chars)
            safe_chars = [z3.Or(z3.And(c >= 48, c <= 57), z3.And(c >= 65, c <= 90), z3.And(c >= 97, c <= 122), c == 95) for c in rc]
            safe = z3.And(len(rc) >= 1, *safe_chars) if rc else z3.BoolVal(False)
            if rc:
                safe = z3.And(safe, z3.Not(z3.And(rc[0] >= 48, rc[0] <= 57)))
            s = z3.Solver()
            s.set("timeout", 60000)
            s.add(*dom, *pc, *it.side, *axioms)
            wit = str(s.check())
            ctx.evaluations += 1
            if wit != "sat":
                continue  # infeasible path (e.g. empty string cannot start with a digit)
            s.add(z3.Not(safe))
            t1 = time.time()
            v = str(s.check())
            ctx.evaluations += 1
            ctx.solver_time += time.time() - t1
            if v == "sat":
                m = s.model()
                bad_in = strsym.model_str(m, strsym.SymStr(chars))
                real = su.sanitize_table_prefix(bad_in)
                import re as _re
                if _re.fullmatch(r"[A-Za-z_][A-Za-z0-9_]*", real):
                    ctx.oblige(f"sql-safe.len{n}", None, f"model {bad_in!r} does not replay: real output {real!r} is safe")
                    ctx.errors.append(f"C17 sql-safe len {n}: counterexample {bad_in!r} does not reproduce")
                else:
                    ctx.oblige(f"sql-safe.len{n}", False, f"unsafe prefix {real!r} for id {bad_in!r}")
                    ctx.report_violation("C17:unsafe-table-prefix", f"sanitize_table_prefix({bad_in!r}) = {real!r} is not a bare SQL identifier",
                                         {"kind": "script", "script": f"from pynenc.util.sqlite_utils import sanitize_table_prefix as f\nimport re\nr=f({bad_in!r}); print(r)\nprint('REPLAY: REPRODUCED' if not re.fullmatch(r'[A-Za-z_][A-Za-z0-9_]*', r) else 'REPLAY: HOLDS')"})
                ok_all = False
                break
            if v != "unsat":
                ok_all = False
                detail = "unknown"
                break
        if ok_all:
            ctx.oblige(f"sql-safe.len{n}", True, f"unsat on {len(paths)} paths")
            ctx.nontrivial.add(f"sql-safe.len{n}")
        elif detail:
            ctx.oblige(f"sql-safe.len{n}", None, detail)
        if n == 3:
            ctx.functions_encoded += it.functions_seen
    # translation validation: concrete adversarial ids through the real function and the encoding
    from engine import strsym as ss
    tv = 0
    for s_in in ["", "a", "9", "my-app", "my_app", "App", "a'b;--", "x y", "ünï", "²", "٣a", "a%b_", "_", "DROP TABLE", "9lives", "\u0000"]:
        it = ss.StrInterp()
        chars = [z3.IntVal(ord(c)) for c in s_in]
        paths = it.run(su.sanitize_table_prefix, ss.SymStr(chars))
        real = su.sanitize_table_prefix(s_in)
        matched = False
        for pc, res in paths:
            s = z3.Solver()
            s.add(*pc, *it.side, *ss.ascii_axioms(res.chars + chars))
            # non-ASCII isdigit is uninterpreted: pin it to Python's answer for this concrete input
            for c in s_in:
                s.add(ss.IS_DIGIT(z3.IntVal(ord(c))) == c.isdigit())
            if str(s.check()) == "sat":
                got = ss.model_str(s.model(), ss.SymStr(res.chars[:-8]))
                if got == real[:-8] and len(res) == len(real):
                    matched = True
        tv += 1
        if not matched:
            ctx.errors.append(f"C17 translation validation: encoding disagrees with the real function on {s_in!r} (real {real!r})")
    ctx.traces_validated += tv
    ctx.extra["sql_safety_paths"] = n_paths
    ctx.extra["sql_safety_wall_s"] = round(time.time() - t0, 1)


def _deletion_predicate(su):
    """Read delete_tables_with_prefix's CURRENT source: returns f(name: SymStr, prefix: SymStr) -> z3 Bool
    'this table is emptied by a purge with this prefix' = SQL LIKE '<prefix>%' AND the Python-side filter (if any)."""
    import ast, inspect, textwrap
    import z3
    from engine import strsym
    tree = ast.parse(textwrap.dedent(inspect.getsource(su.delete_tables_with_prefix)))
    fdef = tree.body[0]
    op = None          # LIKE | GLOB
    suffix = None      # literal text appended to the prefix in the pattern, e.g. "%" or "_*"
    filt = None
    row_var = None
    for node in ast.walk(fdef):
        if isinstance(node, ast.Call) and node.args and isinstance(node.args[0], ast.Constant) and isinstance(node.args[0].value, str) \
                and "sqlite_master" in node.args[0].value and len(node.args) > 1:
            sql = node.args[0].value
            par = node.args[1]
            if "name LIKE ?" in sql:
                op = "LIKE"
            elif "name GLOB ?" in sql:
                op = "GLOB"
            if isinstance(par, ast.Tuple) and len(par.elts) == 1 and isinstance(par.elts[0], ast.JoinedStr):
                js = par.elts[0].values
                if len(js) == 2 and isinstance(js[0], ast.FormattedValue) and isinstance(js[0].value, ast.Name) and js[0].value.id == "prefix" \
                        and isinstance(js[1], ast.Constant) and isinstance(js[1].value, str):
                    suffix = js[1].value
        if isinstance(node, ast.Assign) and len(node.targets) == 1 and isinstance(node.targets[0], ast.Name) and node.targets[0].id == "tables" \
                and isinstance(node.value, ast.ListComp):
            comp = node.value.generators[0]
            if isinstance(comp.target, ast.Name) and isinstance(node.value.elt, ast.Subscript):
                row_var = comp.target.id
                filt = comp.ifs
    many = {"LIKE": "%", "GLOB": "*"}.get(op)
    if op is None or suffix is None or filt is None or not suffix.endswith(many) or many in suffix[:-1]:
        raise strsym.Unsupported("delete_tables_with_prefix no longer has a recognised shape (name LIKE|GLOB '<prefix><literal><wildcard>' + list comprehension)")
    lit = suffix[:-1]

    def fold(c):
        return z3.If(z3.And(c >= 65, c <= 90), c + 32, c)

    def pred(name, prefix):
        pat = (prefix + lit).chars
        if len(name) < len(pat):
            return z3.BoolVal(False)
        if op == "LIKE":     # '_' matches any single character, ASCII case-insensitive
            like = z3.And(*[z3.Or(p == 95, fold(p) == fold(t)) for p, t in zip(pat, name.chars)])
        else:                # GLOB: '?' matches any single character, case-sensitive (prefix characters are [A-Za-z0-9_])
            like = z3.And(*[z3.Or(p == 63, p == t) for p, t in zip(pat, name.chars)])

        def sval(e):
            if isinstance(e, ast.Subscript) and isinstance(e.value, ast.Name) and e.value.id == row_var and not isinstance(e.slice, ast.Slice):
                return name
            if isinstance(e, ast.Name) and e.id == "prefix":
                return prefix
            if isinstance(e, ast.Constant) and isinstance(e.value, str):
                return strsym.SymStr.of(e.value)
            if isinstance(e, ast.JoinedStr):
                out = strsym.SymStr([])
                for part in e.values:
                    out = out + (part.value if isinstance(part, ast.Constant) else sval(part.value))
                return out
            if isinstance(e, ast.Subscript) and isinstance(e.slice, ast.Slice):
                base = sval(e.value)
                lo = e.slice.lower
                if isinstance(lo, ast.Call) and isinstance(lo.func, ast.Name) and lo.func.id == "len" and e.slice.upper is None:
                    return strsym.SymStr(base.chars[len(sval(lo.args[0])):])
            raise strsym.Unsupported("filter string expression " + ast.dump(e)[:80])

        def bval(e):
            if isinstance(e, ast.BoolOp):
                parts = [bval(v) for v in e.values]
                return z3.And(*parts) if isinstance(e.op, ast.And) else z3.Or(*parts)
            if isinstance(e, ast.UnaryOp) and isinstance(e.op, ast.Not):
                return z3.Not(bval(e.operand))
            if isinstance(e, ast.Call) and isinstance(e.func, ast.Attribute) and e.func.attr == "startswith":
                s_, p_ = sval(e.func.value), sval(e.args[0])
                if len(s_) < len(p_):
                    return z3.BoolVal(False)
                return z3.And(*[x == y for x, y in zip(s_.chars, p_.chars)])
            if isinstance(e, ast.Compare) and len(e.ops) == 1 and isinstance(e.ops[0], (ast.In, ast.NotIn)):
                needle, hay = sval(e.left), sval(e.comparators[0])
                k = len(needle)
                occ = [z3.And(*[hay.chars[i + j] == needle.chars[j] for j in range(k)]) for i in range(0, len(hay) - k + 1)]
                isin = z3.Or(*occ) if occ else z3.BoolVal(False)
                return isin if isinstance(e.ops[0], ast.In) else z3.Not(isin)
            raise strsym.Unsupported("filter condition " + ast.dump(e)[:80])

        return z3.And(like, *[bval(c) for c in filt]) if filt else like
    return pred


def _injectivity(ctx: Ctx) -> None:
    """distinct ids never get the same storage prefix, assuming SHA-256 has no collision on the first 8 hex characters FOR DIFFERENT
    HASH INPUTS (what the function feeds to the hash is part of the encoding: two ids that reach the hash as the same text collide)."""
    import z3
    from engine import strsym
    from pynenc.util import sqlite_utils as su
    NMAX = 9
    t0 = time.time()
    queries = 0
    found = None
    inconclusive = None
    for nA in range(0, NMAX + 1):
        for nB in range(nA, NMAX + 1):
            it = strsym.StrInterp()
            A = strsym.SymStr([z3.Int(f"a{i}") for i in range(nA)])
            B = strsym.SymStr([z3.Int(f"b{i}") for i in range(nB)])
            dom = [z3.And(c >= 0, c <= 0x10FFFF) for c in A.chars + B.chars]
            try:
                pathsA = it.run(su.sanitize_table_prefix, A)
                pathsB = it.run(su.sanitize_table_prefix, B)
            except strsym.Unsupported as e:
                ctx.oblige("prefix-injective", None, f"Unsupported: {e}")
                return
            differ = z3.BoolVal(True) if nA != nB else (z3.Or(*[x != y for x, y in zip(A.chars, B.chars)]) if nA else z3.BoolVal(False))
            # no-collision assumption, stated on the hash INPUTS recorded by the interpreter
            nocoll = []
            memo = it.hash_memo
            for i in range(len(memo)):
                for j in range(i + 1, len(memo)):
                    (s1, d1), (s2, d2) = memo[i], memo[j]
                    same_in = z3.BoolVal(False) if len(s1) != len(s2) else (z3.And(*[x == y for x, y in zip(s1.chars, s2.chars)]) if len(s1) else z3.BoolVal(True))
                    nocoll.append(z3.Implies(z3.Not(same_in), z3.Or(*[x != y for x, y in zip(d1[:8], d2[:8])])))
            for pcA, pA in pathsA:
                for pcB, pB in pathsB:
                    if len(pA) != len(pB):
                        continue
                    s = z3.Solver()
                    s.set("timeout", 60000)
                    s.add(*dom, *pcA, *pcB, *it.side, *nocoll, *strsym.ascii_axioms(A.chars + B.chars + pA.chars + pB.chars), differ,
                          z3.And(*[x == y for x, y in zip(pA.chars, pB.chars)]))
                    t1 = time.time()
                    v = str(s.check())
                    queries += 1
                    ctx.solver_time += time.time() - t1
                    if v == "sat" and found is None:
                        m = s.model()
                        found = (strsym.model_str(m, A), strsym.model_str(m, B))
                    elif v not in ("sat", "unsat"):
                        inconclusive = f"solver {v} at |A|={nA} |B|={nB}"
            if found:
                break
        if found:
            break
    ctx.evaluations += queries
    ctx.extra["prefix_injectivity_queries"] = queries
    ctx.extra["prefix_injectivity_wall_s"] = round(time.time() - t0, 1)
    ctx.bounds["prefix injectivity"] = f"two ids of 0..{NMAX} arbitrary code points each, every pair of paths of sanitize_table_prefix; SHA-256 modelled as a function without collisions on the first 8 hex characters"
    if found:
        a, b = found
        ra, rb = su.sanitize_table_prefix(a), su.sanitize_table_prefix(b)
        if a != b and ra == rb:
            ctx.oblige("prefix-injective", False, f"ids {a!r} and {b!r} share the prefix {ra!r}")
            ctx.report_violation("C17:two-ids-share-one-storage-prefix", f"sanitize_table_prefix({a!r}) == sanitize_table_prefix({b!r}) == {ra!r}: the two applications share every table",
                                 {"kind": "script", "script": f"from pynenc.util.sqlite_utils import sanitize_table_prefix as f\na, b = {a!r}, {b!r}\nprint(f(a), f(b))\nprint('REPLAY: REPRODUCED' if a != b and f(a) == f(b) else 'REPLAY: HOLDS')"})
        else:
            ctx.oblige("prefix-injective", None, f"model {a!r} / {b!r} does not replay on the real function ({ra!r} / {rb!r})")
            ctx.errors.append(f"C17 prefix-injective: counterexample {a!r} / {b!r} does not reproduce")
    elif inconclusive:
        ctx.oblige("prefix-injective", None, inconclusive)
    else:
        ctx.oblige("prefix-injective", True, f"unsat for all id lengths 0..{NMAX} x 0..{NMAX} ({queries} queries)")
        ctx.nontrivial.add("prefix-injective")


def _purge_reach(ctx: Ctx) -> None:
    """exists A != B (no hash collision): a table of B is emptied when A purges a component?"""
    import z3
    from engine import strsym
    from pynenc.util import sqlite_utils as su

    try:
        deleted = _deletion_predicate(su)
    except strsym.Unsupported as e:
        ctx.oblige("purge-reach", None, f"Unsupported: {e}")
        return
    comp = "broker"
    table_suffix = "_message_queue"
    found = None
    queries = 0
    t0 = time.time()
    for nA in (1, 2, 3):
        for nB in range(1, 27):
            it = strsym.StrInterp()
            A = strsym.SymStr([z3.Int(f"a{i}") for i in range(nA)])
            B = strsym.SymStr([z3.Int(f"b{i}") for i in range(nB)])
            dom = [z3.And(c >= 32, c <= 126) for c in A.chars + B.chars]
            for pcA, pA in it.run(su.sanitize_table_prefix, A):
                for pcB, pB in it.run(su.sanitize_table_prefix, B):
                    prefix = pA + "__" + comp
                    for compB, sufB in (("broker", "_message_queue"), ("orchestrator", "_invocations")):
                        name = pB + "__" + compB + sufB
                        # distinct applications: ids differ, and (assumption) their 8-char hashes differ
                        hA, hB = pA.chars[-8:], pB.chars[-8:]
                        distinct = z3.Or(*[x != y for x, y in zip(hA, hB)])
                        s = z3.Solver()
                        s.set("timeout", 60000)
                        s.add(*dom, *pcA, *pcB, *it.side, *strsym.ascii_axioms(pA.chars + pB.chars + A.chars + B.chars), distinct, deleted(name, prefix))
                        t1 = time.time()
                        v = str(s.check())
                        queries += 1
                        ctx.solver_time += time.time() - t1
                        if v == "sat" and not found:
                            m = s.model()
                            found = (strsym.model_str(m, A), strsym.model_str(m, B), strsym.model_str(m, prefix), strsym.model_str(m, name))
                        elif v not in ("sat", "unsat"):
                            ctx.oblige("purge-reach", None, f"solver {v} at |A|={nA} |B|={nB}")
                            return
            if found:
                break
        if found:
            break
    ctx.evaluations += queries
    ctx.extra["purge_reach_queries"] = queries
    ctx.extra["purge_reach_wall_s"] = round(time.time() - t0, 1)
    ctx.functions_encoded.append("pynenc.util.sqlite_utils.delete_tables_with_prefix (table selection pattern LIKE/GLOB read from the source incl. wildcard and case semantics, plus the Python-side filter if any)")
    if not found:
        ctx.oblige("purge-reach", True, f"unsat for all |A| <= 3, |B| <= 26 ({queries} queries): no table of another app is emptied (no-hash-collision assumption)")
        ctx.nontrivial.add("purge-reach")
        # reachability witness: A's OWN table is emptied by A's purge
        it = strsym.StrInterp()
        A = strsym.SymStr([z3.Int("a0"), z3.Int("a1")])
        ok = False
        for pcA, pA in it.run(su.sanitize_table_prefix, A):
            s = z3.Solver()
            s.add(*[z3.And(c >= 32, c <= 126) for c in A.chars], *pcA, *it.side, *strsym.ascii_axioms(pA.chars + A.chars),
                  deleted(pA + "__" + comp + table_suffix, pA + "__" + comp))
            ok = ok or str(s.check()) == "sat"
        if ok:
            ctx.oblige("purge-reach.witness-own-table", True, "own table is selected", kind="canary")
            ctx.nontrivial.add("purge-reach.witness-own-table")
        else:
            ctx.oblige("purge-reach.witness-own-table", None, "own table NOT selected: vacuous predicate", kind="canary")
            ctx.errors.append("C17: deletion predicate never selects the app's own table (vacuous)")
        return
    a_id, b_model, pat, txt = found
    # replay by construction with the real SHA-256: B := A's real component prefix + '_x'
    script = f"""
import os, tempfile, logging
logging.disable(logging.CRITICAL)
from pynenc import Pynenc
from pynenc.util.sqlite_utils import TableNames
A = {a_id!r}
B = TableNames(A, "broker").table_prefix + "_x"
d = tempfile.mkdtemp()
db = os.path.join(d, "shared.sqlite")
cfg = dict(orchestrator_cls="SQLiteOrchestrator", broker_cls="SQLiteBroker", state_backend_cls="SQLiteStateBackend",
           client_data_store_cls="SQLiteClientDataStore", trigger_cls="SQLiteTrigger", sqlite_db_path=db, logging_level="critical")
a = Pynenc(config_values=dict(cfg, app_id=A)); b = Pynenc(config_values=dict(cfg, app_id=B))
b.broker.route_invocation("inv-of-B")
before = b.broker.count_invocations()
a.broker.purge()
after = b.broker.count_invocations()
print("A =", repr(A), "B =", repr(B), "B queue before/after A.broker.purge():", before, after)
print("REPLAY: REPRODUCED" if after != before else "REPLAY: HOLDS")
"""
    import subprocess, sys
    cp = subprocess.run([sys.executable, "-c", script], capture_output=True, text=True)
    if "REPLAY: REPRODUCED" in cp.stdout:
        ctx.oblige("purge-reach", False, f"solver: A={a_id!r} prefix {pat!r} selects table {txt!r}; replayed: {cp.stdout.strip()[-200:]}")
        ctx.report_violation("C17:purge-reaches-app-whose-id-embeds-the-purger's-prefix",
                             f"purging a component of app {a_id!r} empties the tables of an app whose id starts with that component's table prefix",
                             {"kind": "script", "script": script, "solver_model": {"A": a_id, "B_shape": b_model, "prefix": pat, "table": txt}})
    else:
        ctx.oblige("purge-reach", None, f"solver model does not replay: {cp.stdout[-200:]} {cp.stderr[-200:]}")
        ctx.errors.append("C17 purge-reach: solver found a selected foreign table but the constructed replay does not reproduce: " + cp.stdout[-200:])


ISO = r'''
from engine.hsupport import *
from engine import standins
from pynenc.invocation.status import InvocationStatus as St
standins.install_sync_history()
LAST_DETAIL = None
IDS = ["app", "App", "app-1", "app_1", "a'b;--", "9lives", "", "a%", "ünï", "app_", "DROP TABLE x", "a b"]

def body(x: int = 0) -> int:
    return x

def populate(app, n):
    t = app.task(body); warm_task(t)
    invs = new_invocations(app, t, n, [{"x": i} for i in range(n)])
    ctx = runner_ctx("r-" + (app.app_id or "empty"))
    if invs:
        o = app.orchestrator
        for st in (St.PENDING, St.RUNNING):
            o.set_invocation_status(invs[0].invocation_id, st, ctx)
        o.set_invocation_result(invs[0], 7, ctx)
        o.register_runner_heartbeats([ctx.runner_id])
    app.client_data_store._store("k-" + str(len(app.app_id)), "v" * 10) if hasattr(app.client_data_store, "_store") else None
    return t, invs, ctx

def snap(app, kind, db):
    if kind == "sqlite":
        from pynenc.util.sqlite_utils import sanitize_table_prefix
        return dump_sqlite(db, sanitize_table_prefix(app.app_id) + "__")
    return mem_snapshot(app)

def _app_info(app):
    sb = app.state_backend
    try:
        info = sb.get_app_info()
        own = getattr(info, "app_id", None)
    except Exception as e:
        own = "raises " + type(e).__name__
    listed = None
    if type(sb).__name__ == "MemStateBackend":        # (the SQLite discovery reads the default database path, not this one)
        try:
            listed = app.app_id in type(sb).discover_app_infos()
        except Exception as e:
            listed = "raises " + type(e).__name__
    return (own, listed)

def observers(app, invs):
    o = app.orchestrator
    return (_app_info(app), app.broker.count_invocations(), o.count_invocations(),
            [o.get_invocation_status(i.invocation_id).value for i in invs],
            app.state_backend.get_result(invs[0].invocation_id) if invs else None,
            [len(app.state_backend.get_history(i.invocation_id)) for i in invs])

OPS = ["route", "status", "purge_broker", "purge_orch", "purge_sb", "purge_cds", "purge_trigger", "purge_all", "register"]
def do_op(app, op, t, invs, ctx):
    name = OPS[op]
    if name == "route":
        app.broker.route_invocation("x-" + str(len(invs)))
    elif name == "status" and len(invs) > 1:
        try:
            app.orchestrator.set_invocation_status(invs[1].invocation_id, St.PENDING, ctx)
        except Exception:
            pass
    elif name == "purge_broker":
        app.broker.purge()
    elif name == "purge_orch":
        app.orchestrator.purge()
    elif name == "purge_sb":
        app.state_backend.purge()
    elif name == "purge_cds":
        app.client_data_store.purge()
    elif name == "purge_trigger":
        app.trigger.purge()
    elif name == "purge_all":
        app.purge()
    elif name == "register":
        new_invocations(app, t, 1, [{"x": 99}])

def isolated(kind, ia, ib, ops):
    global LAST_DETAIL
    reset_uuid()
    db = fresh_db_path("c17") if kind == "sqlite" else None
    a = mk_app(kind, app_id=IDS[ia], db_path=db)
    b = mk_app(kind, app_id=IDS[ib], db_path=db)
    ta, ia_invs, ca = populate(a, 2)
    tb, ib_invs, cb = populate(b, 2)
    before = (snap(b, kind, db), observers(b, ib_invs))
    for op in ops:
        do_op(a, op, ta, ia_invs, ca)
    after = (snap(b, kind, db), observers(b, ib_invs))
    if before != after:
        LAST_DETAIL = {"kind": kind, "A": IDS[ia], "B": IDS[ib], "ops": [OPS[o] for o in ops],
                       "changed": [k for k in set(before[0]) | set(after[0]) if before[0].get(k) != after[0].get(k)],
                       "observers": (before[1], after[1]), "why": "C17:op-on-A-changed-B"}
        return False
    return True

def go(kind_i, ia, ib, ops):
    kind_i = pick(kind_i, 0, 1); ia = pick(ia, 0, len(IDS) - 1); ib = pick(ib, 0, len(IDS) - 1)
    ops = [pick(o, 0, len(OPS) - 1) for o in ops]
    if ia == ib:
        return True
    with NoTracing():
        return isolated(["mem", "sqlite"][kind_i], ia, ib, ops)
'''

ISOF = r'''
def iso___A__(kind_i: int, ib: int, o1: int, o2: int) -> bool:
    """
    pre: 0 <= kind_i <= 1 and 0 <= ib < len(IDS) and 0 <= o1 < len(OPS) and __O2PRE__
    post: _
    """
    return go(kind_i, __A__, ib, [o1, o2][:__NOPS__])
'''

ISOX = r'''
def twin(kind_i: int, ia: int, ib: int, o1: int) -> bool:
    """
    pre: 0 <= kind_i <= 1 and 0 <= ia < len(IDS) and 0 <= ib < len(IDS) and ia != ib and 0 <= o1 < len(OPS)
    post: _
    """
    go(kind_i, ia, ib, [o1])
    return False

def canary_same_id(o1: int) -> bool:
    """
    pre: 0 <= o1 < len(OPS)
    post: _
    """
    # two app objects with the SAME id on one file are one application: purging one must change the other -> refuted
    o1 = pick(o1, 0, len(OPS) - 1)
    with NoTracing():
        IDS.append("app")
        try:
            return isolated("sqlite", 0, len(IDS) - 1, [o1])
        finally:
            IDS.pop()
'''


def run(ctx: Ctx) -> None:
    _safety_queries(ctx)
    _injectivity(ctx)
    _purge_reach(ctx)
    src = ISO
    conds = []
    thorough = ctx.tier == "thorough"
    for a in range(12):
        src += (ISOF.replace("__A__", str(a)).replace("__O2PRE__", "0 <= o2 < len(OPS)" if thorough else "o2 == 0")
                .replace("__NOPS__", "2" if thorough else "1"))
        conds.append(Cond(f"iso_{a}", "confirm", 900))
    src += ISOX
    conds += [Cond("twin", "refute", 60), Cond("canary_same_id", "refute", 120)]
    ctx.ch_batch("c17iso", src, conds)
    ctx.functions_encoded += ["pynenc.util.sqlite_utils.sanitize_table_prefix (AST -> bounded character arrays)",
                              "every component's purge() and the SQLite table naming, through two real apps on one database file"]
    ctx.bounds = {
        **ctx.bounds,
        "sql safety": f"every id of length 0..{MAXLEN}, code points 0..0x10FFFF; SHA-256 = 8 fresh lowercase-hex chars per id (uninterpreted function)",
        "purge reach": "ids of printable ASCII, |A| = 2, B long enough to contain A's component prefix; LIKE with '_' wildcard and ASCII case folding",
        "operation level": "12 adversarial ids (case/punctuation variants, quotes, semicolons, LIKE wildcards, unicode, empty, leading digit), all ordered pairs, 1 op (thorough: 2 ops) on A out of 9 (route, status, register, each purge, app.purge), both stacks",
    }
    ctx.stubs += ["str.isdigit modelled as an uninterpreted predicate pinned to its true values on ASCII",
                  "hashlib.sha256(...).hexdigest() modelled as 64 fresh lowercase-hex characters, functional in its input"]
    ctx.assumptions += ["no collision of the 32-bit truncated SHA-256 among the ids of one deployment",
                        "ids longer than 32 characters behave like shorter ones (the function is character-wise)"]
