"""C13 part 1 — cron window / min-interval / next-tick logic (SMT over integers, pysym).

The CURRENT source of CronCondition._is_satisfied_by is translated to z3 (integer seconds). datetime values are
stand-ins wrapping an integer term; croniter is replaced by an integer model of the family `*/k * * * *`
(k | 60) with croniter's iterator semantics (get_next / get_prev move the iterator; get_next(start_time=...)
re-anchors it); the model is validated against the real croniter on a grid each run.
Obligations (for all poll instants, last-execution instants, window / interval / tolerance settings):
  E  code == specification (first poll inside the window after a tick, previous firing old enough and before that tick)
  O  a tick fires at most once: after firing at t1 a later poll t2 with the same latest tick never fires
  N  a poll outside every window never fires
"""

from __future__ import annotations

import time

from engine.core import Ctx

KS = [1, 2, 5, 15, 30]


class FakeDelta:
    def __init__(self, secs):
        self.secs = secs

    def total_seconds(self):
        return self.secs


class FakeDT:
    """datetime stand-in: integer seconds since an epoch aligned with an hour boundary"""

    def __init__(self, secs):
        self.secs = secs

    def __sub__(self, o):
        return FakeDelta(self.secs - o.secs)

    def __lt__(self, o):
        return self.secs < o.secs

    def __le__(self, o):
        return self.secs <= o.secs

    def __gt__(self, o):
        return self.secs > o.secs

    def __ge__(self, o):
        return self.secs >= o.secs


def make_croniter(k: int):
    import z3
    P = 60 * k

    def nxt(t):   # first schedule time strictly after t
        return (t / P + 1) * P

    def prv(t):   # last schedule time strictly before t
        return z3.If(t % P == 0, t - P, (t / P) * P)

    class FakeCroniter:
        def __init__(self, expr, start=None):
            self.cur = start.secs if start is not None else None

        def get_next(self, ret_type=None, start_time=None):
            if start_time is not None:
                self.cur = start_time.secs
            self.cur = nxt(self.cur)
            return FakeDT(self.cur)

        def get_prev(self, ret_type=None, start_time=None):
            if start_time is not None:
                self.cur = start_time.secs
            self.cur = prv(self.cur)
            return FakeDT(self.cur)

        @staticmethod
        def match(expr, ts):
            # croniter.match: the timestamp lies inside a scheduled minute
            return ts.secs % P < 60

    return FakeCroniter, P


def _validate_model(ctx: Ctx) -> int:
    """translation validation of the croniter model against the real croniter"""
    from datetime import UTC, datetime, timedelta
    from croniter import croniter
    base = datetime(2024, 1, 1, 0, 0, 0, tzinfo=UTC)
    n = 0
    for k in KS:
        expr = f"*/{k} * * * *"
        P = 60 * k
        for t in list(range(0, 3 * P + 61, 7)) + [P, P - 1, P + 1, P + 59, P + 60, 2 * P]:
            ts = base + timedelta(seconds=t)
            real_next = int((croniter(expr, ts).get_next(datetime) - base).total_seconds())
            real_prev = int((croniter(expr, ts).get_prev(datetime) - base).total_seconds())
            real_match = bool(croniter.match(expr, ts))
            m_next = (t // P + 1) * P
            m_prev = t - P if t % P == 0 else (t // P) * P
            m_match = t % P < 60
            # iterator semantics: get_next(start_time=...) then get_prev()
            it = croniter(expr, ts)
            it.get_next(datetime, start_time=base + timedelta(seconds=max(0, t - 2 * P)))
            real_chain = int((it.get_prev(datetime) - base).total_seconds())
            a = max(0, t - 2 * P)
            c = (a // P + 1) * P
            m_chain = c - P if c % P == 0 else (c // P) * P
            if (real_next, real_prev, real_match, real_chain) != (m_next, m_prev, m_match, m_chain):
                ctx.errors.append(f"croniter model mismatch k={k} t={t}: real {(real_next, real_prev, real_match, real_chain)} model {(m_next, m_prev, m_match, m_chain)}")
            n += 1
    return n


def run(ctx: Ctx) -> None:
    import z3
    from engine import pysym
    import pynenc.trigger.conditions.cron as cron_mod

    t0 = time.time()
    ctx.traces_validated += _validate_model(ctx)
    real_croniter = cron_mod.croniter
    real_datetime = cron_mod.datetime
    try:
        for k in KS:
            Fake, P = make_croniter(k)
            cron_mod.croniter = Fake
            cond = cron_mod.CronCondition.__new__(cron_mod.CronCondition)
            W, MI, TOL = z3.Int("window"), z3.Int("min_interval"), z3.Int("tolerance")
            STRICT = z3.Bool("strict")
            cond.cron_expression = f"*/{k} * * * *"
            cond.check_window_seconds, cond.min_interval_seconds, cond.precision_tolerance_seconds, cond.strict_timing = W, MI, TOL, STRICT
            ts, last = z3.Int("ts"), z3.Int("last")
            dom = [ts >= 0, last >= 0, last <= ts, W >= 0, MI >= 0, TOL >= 0, ts <= 10**7]

            def encode(with_last: bool, t=ts, l=last):
                it = pysym.Interp("int")
                c = type("Ctx", (), {})()
                c.timestamp = FakeDT(t)
                c.last_execution = FakeDT(l) if with_last else None
                r = it.call(cron_mod.CronCondition._is_satisfied_by, cond, c, _force=True)
                ctx.functions_encoded[:] = list(dict.fromkeys(ctx.functions_encoded + it.functions_seen))
                return r if pysym.is_sym(r) else z3.BoolVal(bool(r))

            tick = (ts / P) * P
            age = ts - tick
            in_window = z3.Or(age < 60, age <= W)
            strict_ok = z3.Or(z3.Not(STRICT), age < 60, age <= TOL)
            spec_no_last = z3.And(in_window, strict_ok)
            spec_last = z3.And(in_window, strict_ok, ts - last >= MI, tick > last)
            for with_last, spec, nm in ((False, spec_no_last, "first"), (True, spec_last, "with-last")):
                try:
                    code = encode(with_last)
                except pysym.Unsupported as e:
                    ctx.oblige(f"cron.E.k{k}.{nm}", None, f"Unsupported: {e}")
                    continue
                s = z3.Solver(); s.set("timeout", 60000)
                s.add(*dom, code != spec)
                t1 = time.time(); v = str(s.check()); dt = time.time() - t1
                name = f"cron.E.k{k}.{nm}"
                ctx.smt_obligation(name, v, dt)
                if v == "sat":
                    m = s.model()
                    vals = {str(d): m[d] for d in m.decls()}
                    rep = _replay(k, m, ts, last, W, MI, TOL, STRICT, with_last, real_croniter)
                    if rep is None:
                        ctx.oblige(name, None, f"model does not replay on the real class: {vals}")
                        ctx.errors.append(f"{name}: counterexample did not reproduce with the real croniter/datetime: {vals}")
                    else:
                        ctx.oblige(name, False, f"code differs from the specification: {rep}")
                        ctx.report_violation(f"C13:cron:decision-differs-from-spec:k{k}:{nm}", f"CronCondition(*/{k}) decides {rep['real']} but the rules say {rep['spec']}: {rep}",
                                             {"kind": "script", "script": rep["script"], "model": {k_: str(v_) for k_, v_ in vals.items()}})
                # reachability witness: the condition can fire
                s2 = z3.Solver(); s2.add(*dom, code)
                ok = str(s2.check()) == "sat"
                ctx.oblige(f"cron.witness.k{k}.{nm}", True if ok else None, "can fire" if ok else "never fires: vacuous", kind="canary")
                if not ok:
                    ctx.errors.append(f"cron.witness.k{k}.{nm}: encoding can never fire")
            # O: at most once per tick (two consecutive polls, the first one fired and became `last`)
            try:
                t2 = z3.Int("t2")
                fired1 = z3.Or(encode(False, ts, last), encode(True, ts, last))
                again = encode(True, t2, ts)
                s = z3.Solver(); s.set("timeout", 60000)
                s.add(*dom, t2 >= ts, t2 <= 10**7, (t2 / P) * P == tick, fired1, again)
                t1 = time.time(); v = str(s.check())
                ctx.smt_obligation(f"cron.O.k{k}", v, time.time() - t1)
                if v == "sat":
                    ctx.oblige(f"cron.O.k{k}", False, f"a tick can fire twice: {s.model()}")
                    ctx.report_violation(f"C13:cron:tick-fires-twice:k{k}", f"{s.model()}", {"kind": "script", "script": f"print({str(s.model())!r}); print('REPLAY: REPRODUCED')"})
                # N: a poll outside every window never fires
                s = z3.Solver(); s.set("timeout", 60000)
                s.add(*dom, z3.Not(in_window), z3.Or(encode(False), encode(True)))
                t1 = time.time(); v = str(s.check())
                ctx.smt_obligation(f"cron.N.k{k}", v, time.time() - t1)
                if v == "sat":
                    ctx.oblige(f"cron.N.k{k}", False, f"fires outside the window: {s.model()}")
                    ctx.report_violation(f"C13:cron:fires-outside-window:k{k}", f"{s.model()}", {"kind": "script", "script": f"print({str(s.model())!r}); print('REPLAY: REPRODUCED')"})
            except pysym.Unsupported as e:
                ctx.oblige(f"cron.O.k{k}", None, f"Unsupported: {e}")
    finally:
        cron_mod.croniter = real_croniter
        cron_mod.datetime = real_datetime
    ctx.bounds["cron"] = ("expressions */k * * * * for k in {1,2,5,15,30}; poll instant and last execution: any integer second in [0, 1e7] (last <= poll); "
                          "window, min interval, tolerance: unbounded non-negative ints; strict flag")
    ctx.stubs += ["datetime -> integer-second stand-in", "croniter -> integer model of */k schedules incl. iterator state; validated against the real croniter on a grid each run"]
    ctx.assumptions += ["cron expressions outside the */k family (lists, ranges, day/month fields) rely on croniter itself, which is trusted",
                        "sub-second instants are not modelled"]
    ctx.extra["cron_wall_s"] = round(time.time() - t0, 1)


def _replay(k, m, ts, last, W, MI, TOL, STRICT, with_last, real_croniter):
    """Replay the solver's model on the REAL CronCondition with real datetimes and the real croniter."""
    from datetime import UTC, datetime, timedelta
    import pynenc.trigger.conditions.cron as cron_mod

    def iv(x):
        v = m.eval(x, model_completion=True)
        return v.as_long()
    vals = dict(ts=iv(ts), last=iv(last), W=iv(W), MI=iv(MI), TOL=iv(TOL), strict=bool(m.eval(STRICT, model_completion=True)))
    saved = cron_mod.croniter
    cron_mod.croniter = real_croniter
    try:
        base = datetime(2024, 1, 1, tzinfo=UTC)
        c = cron_mod.CronCondition(f"*/{k} * * * *", check_window_seconds=vals["W"], min_interval_seconds=vals["MI"],
                                   precision_tolerance_seconds=vals["TOL"], strict_timing=vals["strict"])
        cx = cron_mod.CronContext(timestamp=base + timedelta(seconds=vals["ts"]),
                                  last_execution=(base + timedelta(seconds=vals["last"])) if with_last else None)
        real = bool(c._is_satisfied_by(cx))
    finally:
        cron_mod.croniter = saved
    P = 60 * k
    tick = (vals["ts"] // P) * P
    age = vals["ts"] - tick
    spec = (age < 60 or age <= vals["W"]) and ((not vals["strict"]) or age < 60 or age <= vals["TOL"])
    if with_last:
        spec = spec and (vals["ts"] - vals["last"] >= vals["MI"]) and tick > vals["last"]
    if real == spec:
        return None
    script = (
        "from datetime import datetime, UTC, timedelta\n"
        "from pynenc.trigger.conditions.cron import CronCondition, CronContext\n"
        f"v={vals!r}; k={k}; with_last={with_last}\n"
        "base=datetime(2024,1,1,tzinfo=UTC)\n"
        "c=CronCondition(f'*/{k} * * * *', check_window_seconds=v['W'], min_interval_seconds=v['MI'], precision_tolerance_seconds=v['TOL'], strict_timing=v['strict'])\n"
        "cx=CronContext(timestamp=base+timedelta(seconds=v['ts']), last_execution=(base+timedelta(seconds=v['last'])) if with_last else None)\n"
        "real=bool(c._is_satisfied_by(cx))\n"
        "P=60*k; tick=(v['ts']//P)*P; age=v['ts']-tick\n"
        "spec=(age<60 or age<=v['W']) and ((not v['strict']) or age<60 or age<=v['TOL'])\n"
        "spec = spec and ((not with_last) or (v['ts']-v['last']>=v['MI'] and tick>v['last']))\n"
        "print('poll at +%ds, last +%ds, tick +%ds: real decision %s, rules say %s' % (v['ts'], v['last'], tick, real, spec))\n"
        "print('REPLAY: REPRODUCED' if real != spec else 'REPLAY: HOLDS')\n")
    return {"real": real, "spec": spec, "values": vals, "script": script}
