"""C05 — a final status always comes with the matching result or exception (DESIGN 3/C05).

1. SCHED: worker = real set_invocation_result / set_invocation_exception twins (+ set_invocation_status and
   the backend transition), reader = observation (status, then result/exception through the public readers with
   a fresh client-data-store cache) at a symbolic preemption point. Outcome kind, externalisation threshold and
   backend symbolic. Canary: status published before the result (statements swapped in the AST).
2. CH: DistributedInvocation.get_final_result for every status x stored outcome.
3. SCHED: a displaced worker. The invocation was RUNNING under r1, recovery re-queued it, r2 runs it to its outcome
   while the stale r1 also completes its body (its final transition is refused, its outcome write is not guarded).
   Whatever the interleaving and whichever outcome kinds, the final status is the winner's and reading the result
   gives the value / exception of one of the completed executions - never nothing.
"""

from engine.core import Cond, Ctx

SRC = r'''
from collections import defaultdict
from datetime import datetime, UTC
from engine.hsupport import *
from engine import standins, coop
from engine.specs.status_spec import STATUSES, FINAL
from pynenc.invocation.status import InvocationStatus as St, InvocationStatusRecord
from pynenc.exceptions import InvocationError, PynencError, RetryError
import pynenc.orchestrator.mem_orchestrator as mo
import pynenc.orchestrator.sqlite_orchestrator as so
import pynenc.orchestrator.base_orchestrator as bo

standins.install_sync_history()
standins.patch_clock(standins.CounterClock(1_600_000_000.0), mo, so)
LAST_DETAIL = None

def body() -> int:
    return 1

class CustomError(Exception):
    pass

# outcome kinds: (is_exception, value)
def outcome(kind, big):
    pad = "x" * (40 if big else 0)
    if kind == 0:
        return False, {"v": 41, "pad": pad}
    if kind == 1:
        return False, [1, "two", pad]
    if kind == 2:
        return True, ValueError("bad value " + pad, 7)
    if kind == 3:
        return True, KeyError("k" + pad)
    if kind == 5:
        return True, TimeoutError()                    # an exception raised without arguments
    if kind == 6:
        from engine.valuekinds import AppError
        return True, AppError()                        # a client-defined exception without arguments
    return True, RetryError("pynenc error " + pad)

BASE_NAMES = ["set_invocation_result", "set_invocation_exception", "set_invocation_status"]
MEM_NAMES = ["_atomic_status_transition", "_get_invocation_lock", "_interanl_atomic_status_transition"]
ALL = set(BASE_NAMES + MEM_NAMES)

def install(swap=False):
    mo.threading = coop.CoopThreading()
    coop.install_sqlite_standin()
    coop.yieldify(bo.BaseOrchestrator, BASE_NAMES, all_names=ALL)
    coop.yieldify(mo.MemOrchestrator, MEM_NAMES, all_names=ALL)
    coop.yieldify(so.SQLiteOrchestrator, ["_atomic_status_transition"], all_names=ALL, sql=True)
    if swap:
        # canary: a worker that publishes the final status BEFORE storing the result must be refuted
        def bad_gen(self, invocation, result, runner_ctx):
            yield ("L", 1)
            yield from self.set_invocation_status__gen(invocation.invocation_id, St.SUCCESS, runner_ctx)
            yield ("L", 2)
            self.app.state_backend.set_result(invocation.invocation_id, result)
        bo.BaseOrchestrator.set_invocation_result__gen = bad_gen

def world(kind, min_size):
    reset_uuid()
    app = mk_app(kind, app_id="c05" + kind, min_size_to_cache=min_size, cached_status_time=0.0)
    task = app.task(body)
    warm_task(task)
    inv = new_invocations(app, task, 1)[0]
    ctx = runner_ctx("r1")
    for st in (St.PENDING, St.RUNNING):
        app.orchestrator.set_invocation_status(inv.invocation_id, st, ctx)
    return app, inv, ctx

def same_exc(a, b):
    return type(a) is type(b) and a.args == b.args

def observe(app, iid, is_exc, value):
    """what a client polling status and result sees right now (fresh reader: no local caches)"""
    app.client_data_store._deserialized_cache.clear()
    reader = app.state_backend.get_invocation(iid)
    st = reader.status
    if st == St.SUCCESS:
        try:
            got = reader.get_final_result()
        except Exception as e:
            return "C05:SUCCESS-visible-before-result:" + type(e).__name__
        if is_exc or got != value:
            return "C05:SUCCESS-with-wrong-result"
    elif st == St.FAILED:
        try:
            reader.get_final_result()
            return "C05:FAILED-but-result-returned"
        except InvocationError:
            return "C05:FAILED-visible-before-exception"
        except Exception as e:
            if not is_exc or not same_exc(e, value):
                return "C05:FAILED-with-wrong-exception:" + type(e).__name__ + ":" + repr(e.args)[:60]
    else:
        try:
            reader.get_final_result()
            return "C05:value-for-non-final-status"
        except InvocationError:
            pass
        except Exception as e:
            return "C05:non-final-raised-" + type(e).__name__
    return None

def race(kind, okind, big, min_size, k):
    global LAST_DETAIL
    app, inv, ctx = world(kind, min_size)
    is_exc, value = outcome(okind, big)
    orch = app.orchestrator
    if is_exc:
        gen = orch.set_invocation_exception__gen(inv, value, ctx)
    else:
        gen = orch.set_invocation_result__gen(inv, value, ctx)
    worker = coop.Actor("worker", gen)
    problems = []
    def reader_gen():
        p = observe(app, inv.invocation_id, is_exc, value)
        if p:
            problems.append(p)
        yield ("L", 0)
    reader = coop.Actor("reader", reader_gen())
    res = coop.run_schedule([worker, reader], 0, [k])
    coop.close_all_connections()
    if worker.error is not None:
        problems.append("C05:worker-raised:" + type(worker.error).__name__ + ":" + str(worker.error)[:80])
    final = observe(app, inv.invocation_id, is_exc, value)
    if final:
        problems.append("after:" + final)
    exp_final = St.FAILED if is_exc else St.SUCCESS
    if orch.get_invocation_status(inv.invocation_id) != exp_final:
        problems.append("C05:final-status-not-reached")
    LAST_DETAIL = {"kind": kind, "outcome": okind, "big": big, "min_size": min_size, "k": k, "worker_trace": worker.trace, "why": problems[0] if problems else None}
    return not problems

def guard(kind, cur, stored):
    """get_final_result for every status: value only if final; stored exception iff FAILED"""
    global LAST_DETAIL
    app, inv, ctx = world(kind, 1024)
    iid = inv.invocation_id
    if stored == 1:
        app.state_backend.set_result(iid, 5)
    elif stored == 2:
        app.state_backend.set_exception(iid, ValueError("e", 1))
    if kind == "mem":
        o = app.orchestrator
        o.invocation_status_record[iid] = InvocationStatusRecord(St(STATUSES[cur]), "r1", datetime(2020, 1, 1, tzinfo=UTC))
        o.status_index = defaultdict(set); o.status_index[St(STATUSES[cur])].add(iid)
    else:
        o = app.orchestrator
        with coop.coop_sqlite_connection(o.sqlite_db_path) as conn:
            conn.execute(f"UPDATE {o.tables.INVOCATIONS} SET status=? WHERE invocation_id=?", (STATUSES[cur], iid)); conn.commit()
    reader = app.state_backend.get_invocation(iid)
    name = STATUSES[cur]
    try:
        v = reader.get_final_result()
        got = ("value", v)
    except InvocationError:
        got = ("not-final",)
    except ValueError as e:
        got = ("stored-exc", e.args)
    except Exception as e:
        got = ("other", type(e).__name__)
    coop.close_all_connections()
    LAST_DETAIL = {"status": name, "stored": stored, "got": got}
    if name not in FINAL:
        return got == ("not-final",)
    if name == "failed":
        return got == ("stored-exc", ("e", 1)) if stored == 2 else got[0] in ("other",)
    if name == "success":
        return got == ("value", 5) if stored == 1 else got[0] == "other"
    return got[0] in ("other", "value") if stored != 1 else got == ("value", 5)

def observe_any(app, iid, outcomes):
    """final status -> the result / exception of SOME completed execution of the body"""
    app.client_data_store._deserialized_cache.clear()
    reader = app.state_backend.get_invocation(iid)
    st = reader.status
    if st == St.SUCCESS:
        try:
            got = reader.get_final_result()
        except Exception as e:
            return "C05:SUCCESS-but-result-unreadable:" + type(e).__name__
        if not any((not is_exc) and got == v for is_exc, v in outcomes):
            return "C05:SUCCESS-with-wrong-result"
    elif st == St.FAILED:
        try:
            reader.get_final_result()
            return "C05:FAILED-but-result-returned"
        except InvocationError:
            return "C05:FAILED-but-exception-unreadable"
        except Exception as e:
            if not any(is_exc and same_exc(e, v) for is_exc, v in outcomes):
                return "C05:FAILED-with-wrong-exception:" + type(e).__name__
    else:
        return "C05:final-status-not-reached"
    return None

def displaced(kind, wk, sk, big, min_size, first, k):
    """wk / sk: outcome kind of the winner (r2) and of the stale worker (r1)"""
    global LAST_DETAIL
    app, inv, ctx1 = world(kind, min_size)                 # RUNNING under r1
    orch = app.orchestrator; iid = inv.invocation_id
    rec = runner_ctx("recovery")
    orch.set_invocation_status(iid, St.RUNNING_RECOVERY, rec)
    orch.reroute_invocations({iid}, rec)
    ctx2 = runner_ctx("r2")
    for st in (St.PENDING, St.RUNNING):
        orch.set_invocation_status(iid, st, ctx2)
    w_exc, w_val = outcome(wk, big)
    s_exc, s_val = outcome(sk, 0)
    if not s_exc:
        s_val = {"stale": True}
    elif s_exc and type(s_val) is type(w_val):
        s_val = type(s_val)("stale")
    def mk(is_exc, val, ctx):
        return orch.set_invocation_exception__gen(inv, val, ctx) if is_exc else orch.set_invocation_result__gen(inv, val, ctx)
    winner = coop.Actor("winner-r2", mk(w_exc, w_val, ctx2))
    stale = coop.Actor("stale-r1", mk(s_exc, s_val, ctx1))
    res = coop.run_schedule([winner, stale], first, [k])
    coop.close_all_connections()
    problems = []
    if winner.error is not None:
        problems.append("C05:displaced:winner-raised:" + type(winner.error).__name__)
    # (whether the stale worker's final transition is refused is C01/C02's subject, not demanded here)
    final = observe_any(app, iid, [(w_exc, w_val), (s_exc, s_val)])
    if final:
        problems.append(final + ":after-displaced-worker-finished")
    exp_final = St.FAILED if w_exc else St.SUCCESS
    if not problems and orch.get_invocation_status(iid) != exp_final:
        problems.append("C05:displaced:final-status-is-not-that-of-the-winner")
    LAST_DETAIL = {"kind": kind, "winner": wk, "stale": sk, "big": big, "min_size": min_size, "first": first, "k": k,
                   "stale_error": repr(stale.error)[:80], "why": problems[0] if problems else None}
    return not problems
'''

F = r'''
def order___KIND_____O__(big: int, min_size: int, k: int) -> bool:
    """
    pre: 0 <= big <= 1 and 0 <= min_size <= 2 and 0 <= k <= KMAX
    post: _
    """
    big = pick(big, 0, 1); min_size = [0, 30, 1024][pick(min_size, 0, 2)]
    with NoTracing():
        return race(["mem", "sqlite"][__KIND__], __O__, big, min_size, k)
'''

D = r'''
def displaced___KIND_____WK__(sk: int, big: int, min_size: int, first: int, k: int) -> bool:
    """
    pre: 0 <= sk <= 6 and 0 <= big <= 1 and 0 <= min_size <= 1 and 0 <= first <= 1 and 0 <= k <= KMAX
    post: _
    """
    wk = __WK__
    sk = pick(sk, 0, 6); big = pick(big, 0, 1); min_size = [0, 1024][pick(min_size, 0, 1)]
    with NoTracing():
        return displaced(["mem", "sqlite"][__KIND__], wk, sk, big, min_size, first, k)
'''

EXTRA = r'''
def guard_all(kind_i: int, cur: int, stored: int) -> bool:
    """
    pre: 0 <= kind_i <= 1 and 0 <= cur <= 13 and 0 <= stored <= 2
    post: _
    """
    kind_i = pick(kind_i, 0, 1); cur = pick(cur, 0, 13); stored = pick(stored, 0, 2)
    with NoTracing():
        return guard(["mem", "sqlite"][kind_i], cur, stored)

def twin(k: int) -> bool:
    """
    pre: 0 <= k <= KMAX
    post: _
    """
    with NoTracing():
        race("mem", 0, 0, 1024, k)
    return False
'''


def _key_from_replay(args, kwargs, replay_out):
    import re
    m = re.search(r"'why': '([^']+)'", replay_out or "")
    return m.group(1) if m else "C05:unclassified"


def run(ctx: Ctx) -> None:
    kmax = 40
    src = SRC + "\ninstall(False)\n"
    conds = []
    for kind in (0, 1):
        for o in range(7):
            src += F.replace("__KIND__", str(kind)).replace("__O__", str(o)).replace("KMAX", str(kmax))
            conds.append(Cond(f"order_{kind}_{o}", "confirm", 900))
    for kind in (0, 1):
        for wk in range(7):
            src += D.replace("__KIND__", str(kind)).replace("__WK__", str(wk)).replace("KMAX", str(kmax))
            conds.append(Cond(f"displaced_{kind}_{wk}", "confirm", 1500, keyfn=_key_from_replay))
    src += EXTRA.replace("KMAX", str(kmax))
    conds += [Cond("guard_all", "confirm", 600), Cond("twin", "refute", 60)]
    ctx.ch_batch("c05", src, conds)
    csrc = SRC + "\ninstall(True)\n" + F.replace("__KIND__", "0").replace("__O__", "0").replace("KMAX", str(kmax))
    ctx.ch_batch("c05canary", csrc, [Cond("order_0_0", "refute", 300)])
    ctx.functions_encoded += ["BaseOrchestrator.set_invocation_result/set_invocation_exception/set_invocation_status (line-level twins)",
                              "Mem/SQLite _atomic_status_transition twins", "BaseStateBackend.set_result/get_result/set_exception/get_exception/serialize_exception/deserialize_exception",
                              "BaseClientDataStore.serialize/resolve/_maybe_store", "DistributedInvocation.status/get_final_result"]
    ctx.bounds = {"reader": f"one observation (status, then result/exception, fresh caches) at every preemption point 0..{kmax} of the worker, plus after completion",
                  "outcomes": "dict value, list value, ValueError(2 args), KeyError, PynencError subclass, TimeoutError() and a client exception without arguments; small and padded; min_size_to_cache in {0, 30, 1024} (inline and externalised)",
                  "guard": "every status x {nothing, result, exception stored} x both backends",
                  "displaced worker": f"winner and stale outcome kinds 7 x 7, small/padded, inline/externalised, both backends, first actor, one preemption 0..{kmax}"}
    ctx.stubs += ["cached_status_time=0 (no status cache)", "reader clears the client-data-store LRU (a different process)", "CoopLock, sqlite timeout=0, sync history threads, counter clock"]
    ctx.assumptions += ["result/exception VALUES are drawn from a small concrete family (serializers are C code and are realised at the boundary): sampling, not part of the discharged claim",
                        "JsonSerializer only (the harness default); pickle/jsonpickle round trips are not covered"]
