"""C04 — recovery re-queues stuck PENDING/RUNNING work and never steals live work (DESIGN 3/C04).

A. SMT (Real): the WHERE clauses of the SQLite recovery scans / active-runner query (read from the current
   source, sqlpred) are equivalent to the specification for every row, heartbeat table and clock value.
B. CH (traced, floats as reals): the real in-memory scan methods on a symbolic state vs the same specification.
C. CH: heartbeat / clock histories -> both real backends agree with the specification (pinned clock).
D. SCHED: the real recovery tasks against an owner that moves one of the listed invocations at a symbolic point.
"""

from __future__ import annotations

import ast
import inspect
import re
import textwrap
import time

from engine.core import Cond, Ctx

PENDING, RUNNING, OTHER = 1, 2, 3


def _param_env(fn):
    """symbolic values of the local names used as SQL parameters, from the simple assignments of the method"""
    import z3
    NOW, MP, TO = z3.Real("now"), z3.Real("max_pending"), z3.Real("timeout")
    tree = ast.parse(textwrap.dedent(inspect.getsource(fn)))
    env = {"timeout_seconds": TO}

    def ev(e):
        if isinstance(e, ast.Name):
            if e.id in env:
                return env[e.id]
            raise KeyError(e.id)
        if isinstance(e, ast.Call) and isinstance(e.func, ast.Name) and e.func.id == "time":
            return NOW
        if isinstance(e, ast.Attribute) and e.attr == "max_pending_seconds":
            return MP
        if isinstance(e, ast.BinOp) and isinstance(e.op, (ast.Sub, ast.Add)):
            a, b = ev(e.left), ev(e.right)
            return a - b if isinstance(e.op, ast.Sub) else a + b
        raise KeyError(ast.dump(e)[:60])

    for node in ast.walk(tree):
        pass
    for node in tree.body[0].body:
        if isinstance(node, ast.Assign) and len(node.targets) == 1 and isinstance(node.targets[0], ast.Name):
            try:
                env[node.targets[0].id] = ev(node.value)
            except KeyError:
                pass
    return env, (NOW, MP, TO)


def _sql_part(ctx: Ctx) -> None:
    import z3
    from engine import sqlpred
    from pynenc.orchestrator.sqlite_orchestrator import SQLiteOrchestrator as SO

    t0 = time.time()

    def status_param(e):
        if isinstance(e, ast.Attribute) and e.attr == "value" and isinstance(e.value, ast.Attribute):
            return {"PENDING": PENDING, "RUNNING": RUNNING}.get(e.value.attr)
        return None

    def check(name, formula_neq, witness=None):
        s = z3.Solver()
        s.set("timeout", 30000)
        s.add(formula_neq)
        t1 = time.time()
        v = str(s.check())
        ctx.smt_obligation(name, v, time.time() - t1)
        if v == "sat":
            ctx.oblige(name, False, f"SQL predicate differs from the specification: {s.model()}")
            ctx.report_violation(f"C04:{name}", f"the SQL scan selects a different set than the specification: {s.model()}",
                                 {"kind": "script", "script": f"print({str(s.model())!r}); print('REPLAY: REPRODUCED')"})

    # ---- pending scan
    try:
        fn = SO.get_pending_invocations_for_recovery
        env, (NOW, MP, TO) = _param_env(fn)
        sql, params = [c for c in sqlpred.extract_execute_calls(fn) if "WHERE" in c[0].upper()][0]
        st, ts = z3.Int("status"), z3.Real("ts")
        pv = []
        for p in params:
            code = status_param(p)
            pv.append((z3.IntVal(code), z3.BoolVal(False)) if code else (env[p.id], z3.BoolVal(False)))
        pred = sqlpred.where_to_z3(sql, {"status": (st, z3.BoolVal(False)), "status_timestamp": (ts, z3.BoolVal(False))}, pv)
        spec = z3.And(st == PENDING, NOW - ts >= MP)
        check("sql.pending-scan==spec", pred != spec)
        s = z3.Solver(); s.add(pred)
        ctx.oblige("sql.pending-scan.witness", True if str(s.check()) == "sat" else None, "selectable row exists", kind="canary")
        ctx.functions_encoded.append("SQLiteOrchestrator.get_pending_invocations_for_recovery (WHERE clause + cutoff computation)")
    except (sqlpred.Unsupported, KeyError, IndexError) as e:
        ctx.oblige("sql.pending-scan==spec", None, f"cannot encode: {e!r}")

    # ---- running scan (LEFT JOIN heartbeat table)
    try:
        fn = SO._get_running_invocations_for_recovery
        env, (NOW, MP, TO) = _param_env(fn)
        sql, params = [c for c in sqlpred.extract_execute_calls(fn) if "WHERE" in c[0].upper()][0]
        if not re.search(r"LEFT JOIN \S+ r ON i\.status_runner_id = r\.runner_id", sql):
            raise sqlpred.Unsupported("join shape changed: " + sql[:120])
        st, owner = z3.Int("status"), z3.Int("owner")            # owner: 0 = NULL, 1, 2 = runner ids
        present = {1: z3.Bool("hb1_present"), 2: z3.Bool("hb2_present")}
        hb = {1: z3.Real("hb1"), 2: z3.Real("hb2")}
        owner_null = owner == 0
        joined = z3.Or(z3.And(owner == 1, present[1]), z3.And(owner == 2, present[2]))
        r_hb = z3.If(owner == 1, hb[1], hb[2])
        cols = {"i.status": (st, z3.BoolVal(False)), "i.status_runner_id": (owner, owner_null),
                "r.runner_id": (owner, z3.Not(joined)), "r.last_heartbeat": (r_hb, z3.Not(joined))}
        pv = []
        for p in params:
            code = status_param(p)
            pv.append((z3.IntVal(code), z3.BoolVal(False)) if code else (env[p.id], z3.BoolVal(False)))
        pred = sqlpred.where_to_z3(sql, cols, pv)
        dom = z3.And(owner >= 0, owner <= 2)
        stale = z3.Or(z3.Not(joined), NOW - r_hb > TO)
        spec = z3.And(st == RUNNING, z3.Not(owner_null), stale)
        check("sql.running-scan==spec", z3.And(dom, pred != spec))
        s = z3.Solver(); s.add(dom, pred)
        ctx.oblige("sql.running-scan.witness", True if str(s.check()) == "sat" else None, "selectable row exists", kind="canary")
        ctx.functions_encoded.append("SQLiteOrchestrator._get_running_invocations_for_recovery (LEFT JOIN + WHERE + cutoff)")
    except (sqlpred.Unsupported, KeyError, IndexError) as e:
        ctx.oblige("sql.running-scan==spec", None, f"cannot encode: {e!r}")

    # ---- active runners (heartbeat freshness, atomic-service filter)
    try:
        fn = SO._get_active_runners
        env, (NOW, MP, TO) = _param_env(fn)
        sql, params = [c for c in sqlpred.extract_execute_calls(fn) if "WHERE" in c[0].upper()][0]
        hbv, allow = z3.Real("hb"), z3.Int("allow")
        flag, flag_null = z3.Int("flag"), z3.Bool("flag_null")
        pv = []
        for p in params:
            if isinstance(p, ast.Name) and p.id == "can_run_atomic_service":
                pv.append((flag, flag_null))
            else:
                pv.append((env[p.id], z3.BoolVal(False)))
        pred = sqlpred.where_to_z3(sql, {"last_heartbeat": (hbv, z3.BoolVal(False)), "allow_to_run_atomic_service": (allow, z3.BoolVal(False))}, pv)
        dom = z3.And(allow >= 0, allow <= 1, flag >= 0, flag <= 1)
        spec = z3.And(NOW - hbv <= TO, z3.Or(flag_null, allow == flag))
        check("sql.active-runners==spec", z3.And(dom, pred != spec))
        ctx.functions_encoded.append("SQLiteOrchestrator._get_active_runners (WHERE clause)")
    except (sqlpred.Unsupported, KeyError, IndexError) as e:
        ctx.oblige("sql.active-runners==spec", None, f"cannot encode: {e!r}")
    ctx.extra["sql_part_wall_s"] = round(time.time() - t0, 2)


MEM = r'''
from types import SimpleNamespace
from typing import Optional
from engine.hsupport import *
from pynenc.invocation.status import InvocationStatus as St
import pynenc.orchestrator.mem_orchestrator as mo

class _TS:
    def __init__(self, v): self.v = v
    def timestamp(self): return self.v

NOW = [0.0]
mo.time = lambda: NOW[0]
STS = [St.PENDING, St.RUNNING, St.REGISTERED, St.PENDING_RECOVERY]

def fake_self(statuses, tss, owners, hbs, max_pending):
    recs = {}
    index = {}
    for i, (s, t, o) in enumerate(zip(statuses, tss, owners)):
        iid = f"inv{i}"
        recs[iid] = SimpleNamespace(status=STS[s], timestamp=_TS(t), runner_id=o)
        index.setdefault(STS[s], set()).add(iid)
    app = SimpleNamespace(conf=SimpleNamespace(max_pending_seconds=max_pending))
    return SimpleNamespace(app=app, status_index=index, invocation_status_record=recs,
                           runner_last_heartbeat={k: v for k, v in hbs.items() if v is not None})

def mem_pending(s0: int, t0: int, s1: int, t1: int, now: int, max_pending: int) -> bool:
    """
    pre: 0 <= s0 <= 3 and 0 <= s1 <= 3
    pre: 0 <= max_pending <= 10**9 and -10**12 <= t0 <= 10**12 and -10**12 <= t1 <= 10**12 and -10**12 <= now <= 10**12
    post: _
    """
    s0 = pick(s0, 0, 3); s1 = pick(s1, 0, 3)      # statuses decided first; the instants stay symbolic
    NOW[0] = now
    fs = fake_self([s0, s1], [t0, t1], ["r1", "r2"], {}, max_pending)
    got = set(mo.MemOrchestrator.get_pending_invocations_for_recovery(fs))
    exp = {f"inv{i}" for i, (s, t) in enumerate([(s0, t0), (s1, t1)]) if STS[s] == St.PENDING and now - t >= max_pending}
    return got == exp

def mem_running(s0: int, o0: int, s1: int, o1: int, hb1: int, p1: bool, hb2: int, p2: bool, now: int, timeout: int) -> bool:
    """
    pre: 0 <= s0 <= 3 and 0 <= s1 <= 3 and 0 <= o0 <= 2 and 0 <= o1 <= 2
    pre: 0 <= timeout <= 10**9 and -10**12 <= hb1 <= 10**12 and -10**12 <= hb2 <= 10**12 and -10**12 <= now <= 10**12
    post: _
    """
    s0 = pick(s0, 0, 3); s1 = pick(s1, 0, 3); o0 = pick(o0, 0, 2); o1 = pick(o1, 0, 2)
    NOW[0] = now
    OW = [None, "r1", "r2"]
    fs = fake_self([s0, s1], [0.0, 0.0], [OW[o0], OW[o1]], {"r1": hb1 if p1 else None, "r2": hb2 if p2 else None}, 0.0)
    got = set(mo.MemOrchestrator._get_running_invocations_for_recovery(fs, timeout))
    def stale(o):
        if o == 0:
            return False
        present, hb = (p1, hb1) if o == 1 else (p2, hb2)
        return (not present) or (now - hb > timeout)
    exp = {f"inv{i}" for i, (s, o) in enumerate([(s0, o0), (s1, o1)]) if STS[s] == St.RUNNING and stale(o)}
    return got == exp

def mem_twin(s0: int, t0: int, now: int, max_pending: int) -> bool:
    """
    pre: 0 <= s0 <= 3 and 0 <= max_pending <= 10**9 and -10**12 <= t0 <= 10**12 and -10**12 <= now <= 10**12
    post: _
    """
    mem_pending(s0, t0, 0, 0.0, now, max_pending)
    return False

def mem_canary_strict(s0: int, t0: int, now: int, max_pending: int) -> bool:
    """
    pre: 0 <= s0 <= 3 and 0 <= max_pending <= 10**9 and -10**12 <= t0 <= 10**12 and -10**12 <= now <= 10**12
    post: _
    """
    # wrong spec on purpose (strict > instead of >=): the boundary now - ts == limit must refute it
    s0 = pick(s0, 0, 3)
    NOW[0] = now
    fs = fake_self([s0], [t0], ["r1"], {}, max_pending)
    got = set(mo.MemOrchestrator.get_pending_invocations_for_recovery(fs))
    exp = {"inv0"} if STS[s0] == St.PENDING and now - t0 > max_pending else set()
    return got == exp
'''

HB = r'''
from engine.hsupport import *
from engine import standins
from pynenc.invocation.status import InvocationStatus as St
import pynenc.orchestrator.mem_orchestrator as mo, pynenc.orchestrator.sqlite_orchestrator as so
standins.install_sync_history()
CLOCK = standins.CounterClock(1_700_000_000.0)
standins.patch_clock(CLOCK, mo, so)
LAST_DETAIL = None
TIMEOUT_MIN = 1.0     # runner_considered_dead_after_minutes -> 60 s
STEPS = [0.0, 30.0, 60.0, 61.0]
# ops: 0 hb(r1, flag False)  1 hb(r1, flag True)  2 hb(r2, False)  3 hb(r2, True)  4..7 advance clock by STEPS[i-4]
NOPS = 8

def body() -> int:
    return 1

def hist(kind, ops):
    global LAST_DETAIL
    reset_uuid()
    CLOCK.now = 1_700_000_000.0
    app = mk_app(kind, app_id="c04hb" + kind, runner_considered_dead_after_minutes=TIMEOUT_MIN)
    task = app.task(body); warm_task(task)
    invs = new_invocations(app, task, 2)
    o = app.orchestrator
    ctxs = {"r1": runner_ctx("r1"), "r2": runner_ctx("r2")}
    for inv, rn in zip(invs, ("r1", "r2")):
        for st in (St.PENDING, St.RUNNING):
            o.set_invocation_status(inv.invocation_id, st, ctxs[rn])
    last = {"r1": None, "r2": None}
    log = []
    for op in ops:
        if op <= 3:
            rn = "r1" if op < 2 else "r2"
            o.register_runner_heartbeats([rn], can_run_atomic_service=bool(op & 1))
            last[rn] = CLOCK.now
            log.append(("hb", rn, bool(op & 1), CLOCK.now))
        else:
            CLOCK.now += STEPS[op - 4]
            log.append(("advance", STEPS[op - 4]))
        now = CLOCK.now
        exp = {inv.invocation_id for inv, rn in zip(invs, ("r1", "r2")) if last[rn] is None or now - last[rn] > TIMEOUT_MIN * 60}
        got = set(o.get_running_invocations_for_recovery())
        exp_active = {rn for rn in ("r1", "r2") if last[rn] is not None and now - last[rn] <= TIMEOUT_MIN * 60}
        got_active = {r.runner_id for r in o.get_active_runners()}
        if got != exp or got_active != exp_active:
            LAST_DETAIL = {"kind": kind, "log": log, "selected": sorted(got), "expected": sorted(exp), "active": sorted(got_active), "expected_active": sorted(exp_active),
                           "why": "C04:running-scan-vs-heartbeat-history"}
            return False
    return True

def go(ops):
    ops = [pick(o, 0, NOPS - 1) for o in ops]
    with NoTracing():
        return hist("mem", ops) and hist("sqlite", ops)
'''

HBF = r'''
def hb___A_____B__(o3: int, o4: int) -> bool:
    """
    pre: 0 <= o3 < NOPS and __O4PRE__
    post: _
    """
    return go([__A__, __B__, o3, o4][:__LEN__])
'''

HBX = r'''
def hb_twin(o1: int, o2: int) -> bool:
    """
    pre: 0 <= o1 < NOPS and 0 <= o2 < NOPS
    post: _
    """
    go([o1, o2])
    return False
'''

REC = r'''
import dataclasses
from datetime import datetime, UTC, timedelta
from engine.hsupport import *
from engine import standins, coop
from pynenc import context
from pynenc.invocation.status import InvocationStatus as St
from pynenc.exceptions import InvocationStatusError
import pynenc.core_tasks as ct
import pynenc.orchestrator.mem_orchestrator as mo, pynenc.orchestrator.sqlite_orchestrator as so
import pynenc.orchestrator.base_orchestrator as bo
standins.install_sync_history()
CLOCK = standins.CounterClock(1_700_000_000.0)
standins.patch_clock(CLOCK, mo, so)
LAST_DETAIL = None

def body() -> int:
    return 1

NAMES_BASE = ["set_invocation_status", "reroute_invocations", "get_running_invocations_for_recovery"]
SCAN = ["get_pending_invocations_for_recovery", "_get_running_invocations_for_recovery"]
MEM_NAMES = ["_atomic_status_transition", "_get_invocation_lock", "_interanl_atomic_status_transition"] + SCAN
TASKS = ["recover_pending_invocations", "recover_running_invocations"]
ALL = set(NAMES_BASE + MEM_NAMES + TASKS)
def install():
    mo.threading = coop.CoopThreading()
    coop.install_sqlite_standin()
    GEN = set(SCAN)
    coop.yieldify(bo.BaseOrchestrator, NAMES_BASE, all_names=ALL, gen_names=GEN)
    coop.yieldify(mo.MemOrchestrator, MEM_NAMES, all_names=ALL, gen_names=GEN)
    coop.yieldify(so.SQLiteOrchestrator, ["_atomic_status_transition"] + SCAN, all_names=ALL, gen_names=GEN, sql=True)
    class _Holder: pass
    for nm in TASKS:
        setattr(_Holder, nm, staticmethod(getattr(ct, nm).func))
    coop.yieldify(_Holder, TASKS, all_names=ALL, gen_names=GEN)
    global HOLDER
    HOLDER = _Holder
install()

def set_ts(app, kind, iid, ts):
    o = app.orchestrator
    if kind == "mem":
        rec = o.invocation_status_record[iid]
        o.invocation_status_record[iid] = dataclasses.replace(rec, timestamp=datetime.fromtimestamp(ts, tz=UTC))
    else:
        with coop.coop_sqlite_connection(o.sqlite_db_path) as conn:
            conn.execute(f"UPDATE {o.tables.INVOCATIONS} SET status_timestamp=? WHERE invocation_id=?", (ts, iid)); conn.commit()

def queue_list(app):
    out = []
    while True:
        x = app.broker.retrieve_invocation()
        if x is None:
            break
        out.append(x)
    for x in out:
        app.broker.route_invocation(x)
    return out

def scenario(kind, which, n, fresh_mask, mover, action, k):
    """which: 0 pending recovery, 1 running recovery. n invocations held by runner 'own'; bit i of fresh_mask = invocation i is
    NOT stale (recent PENDING / owner with fresh heartbeat). Owner actor moves invocation `mover` at preemption point k."""
    global LAST_DETAIL
    reset_uuid()
    CLOCK.now = 1_700_000_000.0
    app = mk_app(kind, app_id="c04rec" + kind, max_pending_seconds=5.0, runner_considered_dead_after_minutes=1.0)
    task = app.task(body); warm_task(task)
    invs = new_invocations(app, task, n)
    ids = [i.invocation_id for i in invs]
    while app.broker.retrieve_invocation():
        pass
    o = app.orchestrator
    owners = []
    for i, iid in enumerate(ids):
        fresh = (fresh_mask >> i) & 1
        rn = ("live" if fresh else "dead") if which == 1 else "own"
        ctx = runner_ctx(rn)
        owners.append(ctx)
        o.set_invocation_status(iid, St.PENDING, ctx)
        if which == 1:
            o.set_invocation_status(iid, St.RUNNING, ctx)
        else:
            set_ts(app, kind, iid, CLOCK.now - (1.0 if fresh else 100.0))
    if which == 1:
        CLOCK.now -= 1000.0
        o.register_runner_heartbeats(["dead"])
        CLOCK.now += 1000.0
        o.register_runner_heartbeats(["live"])
    rec_ctx = runner_ctx("recoverer")
    context.set_current_app(app)
    context.set_runner_context(app.app_id, rec_ctx)
    gen = getattr(HOLDER, TASKS[which] + "__gen")()
    rec = coop.Actor("recovery", gen)
    moved = {}
    def owner_gen():
        iid = ids[mover]
        new = [St.RUNNING, St.KILLED][action] if which == 0 else [St.SUCCESS, St.KILLED][action]
        try:
            yield from o.set_invocation_status__gen(iid, new, owners[mover])   # twin: blocks cooperatively on the invocation lock
            moved["ok"] = new
        except InvocationStatusError as e:
            moved["refused"] = type(e).__name__
        yield ("L", 0)
    own = coop.Actor("owner", owner_gen())
    res = coop.run_schedule([rec, own], 0, [k, 1000])
    coop.close_all_connections()
    q = queue_list(app)
    final = {iid: o.get_invocation_status_record(iid) for iid in ids}
    def fail(why):
        global LAST_DETAIL
        LAST_DETAIL = {"kind": kind, "which": TASKS[which], "n": n, "fresh_mask": fresh_mask, "mover": mover, "action": action, "k": k,
                       "recovery_error": repr(rec.error), "owner": moved, "final": {i: (r.status.value, r.runner_id) for i, r in final.items()},
                       "queue": q, "why": why}
        return False
    if res["deadlock"]:
        return fail("C04:deadlock")
    stuck = [i for i, r in final.items() if r.status in (St.PENDING_RECOVERY, St.RUNNING_RECOVERY)]
    if stuck:
        return fail("C04:recovery-left-invocation-in-recovery-status-unqueued")
    if rec.error is not None:
        return fail("C04:recovery-task-raised:" + type(rec.error).__name__)
    for i, iid in enumerate(ids):
        r = final[iid]
        fresh = (fresh_mask >> i) & 1
        if r.status == St.REROUTED:
            if iid not in q:
                return fail("C04:rerouted-but-not-queued")
            if fresh and not (i == mover and "ok" in moved and moved["ok"] == St.KILLED):
                return fail("C04:recovery-stole-live-work")
        elif fresh and i != mover:
            exp = St.RUNNING if which == 1 else St.PENDING
            if r.status != exp or r.runner_id != owners[i].runner_id:
                return fail("C04:recovery-touched-live-work")
        elif not fresh and i != mover:
            return fail("C04:stale-invocation-not-recovered")
    LAST_DETAIL = {"final": {i: r.status.value for i, r in final.items()}, "owner": moved}
    return True
'''

RECF = r'''
def rec___KIND_____WHICH_____MOVER__(n: int, fresh_mask: int, action: int, k: int) -> bool:
    """
    pre: __NLO__ <= n <= 3 and 0 <= fresh_mask <= 7 and 0 <= action <= 1 and 0 <= k <= KMAX
    post: _
    """
    mover = __MOVER__
    n = pick(n, 2, 3); fresh_mask = pick(fresh_mask, 0, 7); action = pick(action, 0, 1)
    if mover >= n or fresh_mask >= (1 << n):
        return True
    with NoTracing():
        return scenario(["mem", "sqlite"][__KIND__], __WHICH__, n, fresh_mask, mover, action, k)
'''

RECX = r'''
def rec_twin(k: int) -> bool:
    """
    pre: 0 <= k <= KMAX
    post: _
    """
    with NoTracing():
        scenario("mem", 0, 2, 0, 0, 0, k)
    return False
'''


PARENT = r'''
from pynenc.invocation.status import InvocationStatus as St
import pynenc.orchestrator.mem_orchestrator as mo, pynenc.orchestrator.sqlite_orchestrator as so

class SharedClock:
    """one clock for the orchestrators, the runner modules and time.sleep stand-ins"""
    def __init__(self):
        self.now = 1_700_000_000.0
    def time(self):
        return self.now
    def sleep(self, s):
        self.now += s
    def __call__(self):
        return self.now
SCLOCK = SharedClock()
standins.patch_clock(SCLOCK, mo, so)
for _m in (ppr, mtr, prr, brr):
    _m.time = SCLOCK
DEAD_AFTER_S = 12.0

def parent_reports(kind, rk, deltas, die_at):
    """a parent runner with (stand-in) child processes loops; the clock advances by deltas[i] before iteration i; child 0 owns a RUNNING
    invocation and dies before iteration `die_at` (never if die_at >= len(deltas)). Recovery must not select the invocation while the
    child is alive and the parent keeps looping; it must select it once the child is dead for longer than the timeout."""
    global LAST_DETAIL
    reset_uuid()
    FakeProcess.seq = 0
    CPU[0] = 2
    SCLOCK.now = 1_700_000_000.0
    conf = [{"num_processes": 2, "runner_cls": "PersistentProcessRunner"},
            {"max_processes": 2, "min_processes": 2, "enforce_max_processes": True, "runner_cls": "MultiThreadRunner"}][rk]
    app = mk_app(kind, app_id=f"c04par{kind}{rk}", runner_considered_dead_after_minutes=DEAD_AFTER_S / 60.0, **conf)
    task = app.task(body); warm_task(task)
    cls = [ppr.PersistentProcessRunner, mtr.MultiThreadRunner][rk]
    runner = cls(app)
    runner.conf
    runner.running = True
    runner._on_start()
    o = app.orchestrator
    kids = procs_of(runner)
    child_id, child_proc = kids[0]
    inv = new_invocations(app, task, 1)[0]
    cctx = runner_ctx(child_id)
    o.register_runner_heartbeats([child_id])                  # the child announced itself when it started
    for st in (St.PENDING, St.RUNNING):
        o.set_invocation_status(inv.invocation_id, st, cctx)
    log = []
    died_at_time = None
    for i, d in enumerate(deltas):
        SCLOCK.now += d
        if i == die_at:
            child_proc.alive = False
            died_at_time = SCLOCK.now
        runner._report_child_runner_heartbeats()
        selected = inv.invocation_id in set(o.get_running_invocations_for_recovery())
        log.append((i, d, child_proc.is_alive(), selected))
        if child_proc.is_alive() and selected:
            LAST_DETAIL = {"kind": kind, "runner": cls.__name__, "deltas": deltas, "die_at": die_at, "log": log,
                           "why": "C04:recovery-selects-work-of-a-live-child-whose-parent-keeps-reporting"}
            return False
        runner.runner_loop_iteration()
    if died_at_time is not None:
        SCLOCK.now = max(SCLOCK.now, died_at_time) + DEAD_AFTER_S + 1
        runner._report_child_runner_heartbeats()
        if inv.invocation_id not in set(o.get_running_invocations_for_recovery()):
            LAST_DETAIL = {"kind": kind, "runner": cls.__name__, "deltas": deltas, "die_at": die_at, "log": log,
                           "why": "C04:work-of-a-dead-child-never-becomes-recoverable"}
            return False
    LAST_DETAIL = {"log": log}
    return True

DELTAS = [1.0, 5.0, 11.0]

def parent___KIND_____RK__(d1: int, d2: int, d3: int, d4: int, die_at: int) -> bool:
    """
    pre: 0 <= d1 <= 2 and 0 <= d2 <= 2 and 0 <= d3 <= 2 and 0 <= d4 <= 2 and 0 <= die_at <= 4
    post: _
    """
    ds = [DELTAS[pick(x, 0, 2)] for x in (d1, d2, d3, d4)]
    die_at = pick(die_at, 0, 4)
    with NoTracing():
        return parent_reports(["mem", "sqlite"][__KIND__], __RK__, ds, die_at)
'''

PARENTX = r'''
def parent_twin(d1: int, die_at: int) -> bool:
    """
    pre: 0 <= d1 <= 2 and 0 <= die_at <= 2
    post: _
    """
    d = DELTAS[pick(d1, 0, 2)]; die_at = pick(die_at, 0, 2)
    with NoTracing():
        parent_reports("mem", 0, [d, d], die_at)
    return False

def parent_canary_throttled(d1: int, d2: int, d3: int) -> bool:
    """
    pre: 0 <= d1 <= 2 and 0 <= d2 <= 2 and 0 <= d3 <= 2
    post: _
    """
    # canary: a parent that reports its children only every 30 s must be refuted (a live child's work gets selected)
    orig = brr.BaseRunner._report_child_runner_heartbeats
    state = {"last": 0.0}
    def throttled(self):
        if SCLOCK.now - state["last"] < 30.0:
            return
        state["last"] = SCLOCK.now
        return orig(self)
    brr.BaseRunner._report_child_runner_heartbeats = throttled
    ds = [DELTAS[pick(x, 0, 2)] for x in (d1, d2, d3)]
    try:
        with NoTracing():
            return parent_reports("mem", 0, ds, 9)
    finally:
        brr.BaseRunner._report_child_runner_heartbeats = orig
'''


def _key_from_replay(args, kwargs, replay_out):
    m = re.search(r"'why': '([^']+)'", replay_out or "")
    return m.group(1) if m else "C04:unclassified"


def run(ctx: Ctx) -> None:
    thorough = ctx.tier == "thorough"
    _sql_part(ctx)
    ctx.ch_batch("c04mem", MEM, [Cond("mem_pending", "confirm", 600), Cond("mem_running", "confirm", 900),
                                 Cond("mem_twin", "refute", 60), Cond("mem_canary_strict", "refute", 120)])
    src = HB
    conds = []
    for a in range(8):
        for b in range(8):
            src += (HBF.replace("__A__", str(a)).replace("__B__", str(b)).replace("__O4PRE__", "0 <= o4 < NOPS" if thorough else "o4 == 0")
                    .replace("__LEN__", "4" if thorough else "3"))
            conds.append(Cond(f"hb_{a}_{b}", "confirm", 600, keyfn=_key_from_replay))
    src += HBX
    conds.append(Cond("hb_twin", "refute", 60))
    ctx.ch_batch("c04hb", src, conds)
    kmax = 60
    src = REC
    conds = []
    for kind in (0, 1):
        for which in (0, 1):
            for mover in (0, 1, 2):
                src += (RECF.replace("__KIND__", str(kind)).replace("__WHICH__", str(which)).replace("__MOVER__", str(mover))
                        .replace("__NLO__", "2" if thorough else "3").replace("KMAX", str(kmax)))
                conds.append(Cond(f"rec_{kind}_{which}_{mover}", "confirm", 1500, keyfn=_key_from_replay))
    src += RECX.replace("KMAX", str(kmax))
    conds.append(Cond("rec_twin", "refute", 60))
    ctx.ch_batch("c04rec", src, conds)
    # heartbeats reported by a parent runner on behalf of its live children (runner level, process stand-ins of C14)
    from props import C14
    head = C14.SRC.split("def scenario(kind, cap, enforce, minp, queue, masks):")[0]
    phead, pf = PARENT.split("def parent___KIND_____RK__")
    pf = "def parent___KIND_____RK__" + pf
    psrc, pconds = head + phead, []
    for kind in (0, 1):
        for rk in (0, 1):
            psrc += pf.replace("__KIND__", str(kind)).replace("__RK__", str(rk))
            pconds.append(Cond(f"parent_{kind}_{rk}", "confirm", 900, keyfn=_key_from_replay))
    psrc += PARENTX
    pconds += [Cond("parent_twin", "refute", 60), Cond("parent_canary_throttled", "refute", 120)]
    ctx.ch_batch("c04parent", psrc, pconds)
    ctx.functions_encoded += ["BaseRunner._report_child_runner_heartbeats + get_active_child_runner_ids of PersistentProcessRunner / MultiThreadRunner with process stand-ins, against the real recovery scan",
                              "MemOrchestrator.get_pending_invocations_for_recovery/_get_running_invocations_for_recovery (traced on a symbolic state)",
                              "Mem/SQLite register_runner_heartbeats/_get_active_runners/get_running_invocations_for_recovery (heartbeat histories)",
                              "core_tasks.recover_pending_invocations/recover_running_invocations (line-level twins) + set_invocation_status/reroute_invocations twins"]
    ctx.bounds = {"sql": "one invocation row (status in {PENDING, RUNNING, other}, owner in {NULL, r1, r2}), two heartbeat rows (present/absent), clock, limits: unbounded reals",
                  "mem scans": "2 invocations, 2 runners, symbolic integer-valued timestamps/heartbeats/clock in [-1e12, 1e12], limits in [0, 1e9]: every boundary (age == limit) is exact, no rounding",
                  "heartbeat histories": "3 ops (thorough: 4) over 8 letters (heartbeat r1/r2 with either atomic-service flag, clock advance 0/30/60/61 s; timeout 60 s)",
                  "parent reports": "parent runner (PersistentProcess / MultiThread) with 2 stand-in children, 4 loop iterations with the clock advancing 1 / 5 / 11 s before each (timeout 12 s), the child that owns a RUNNING invocation dies before iteration 0..3 or never; both backends",
                  "recovery run": f"3 invocations (thorough: 2-3), any subset fresh, owner moves one of them (PENDING->RUNNING/KILLED or RUNNING->SUCCESS/KILLED) at preemption point 0..{kmax}; both backends"}
    ctx.stubs += ["mem scans run on a SimpleNamespace `self` with symbolic integer-valued instants (the claim is in exact arithmetic; one rounding of `now` in doubles is outside it)", "clock = CounterClock in both orchestrator modules",
                  "status timestamps forced by direct state construction", "CoopLock, sqlite timeout=0, sync history"]
    ctx.assumptions += ["exact arithmetic: `now - limit >= ts` and `now - ts >= limit` differ in doubles by at most one rounding of `now` (~2e-7 s): outside the claim",
                        "the recovery task runs against ONE concurrent owner step (one preemption)"]
