"""C06 — running concurrency control: never two RUNNING invocations with the same key (DESIGN 3/C06).

CH (op histories decided by the solver, real code run concretely): submissions through every path
(single call, parallelize batch -> route_calls, retry re-queue), polls by two runners (sequential),
starts (real DistributedInvocation.run with a body that stays RUNNING), finishes, retries; modes
DISABLED/TASK/ARGUMENTS/KEYS x reroute option; both backends. Oracle: independent key function.
"""

import re

from engine.core import Cond, Ctx

SRC = r'''
from engine.hsupport import *
from engine import standins
from pynenc.invocation.status import InvocationStatus as St
from pynenc.exceptions import InvocationStatusTransitionError, InvocationStatusError
from pynenc.conf.config_task import ConcurrencyControlType as CC

standins.install_sync_history()
import pynenc.orchestrator.mem_orchestrator as _mo, pynenc.orchestrator.sqlite_orchestrator as _so
standins.patch_clock(standins.CounterClock(1_600_000_000.0), _mo, _so)
LAST_DETAIL = None
TOLERATE = set(__TOLERATE__)

class Hold(BaseException):
    """raised by the task body: the invocation stays RUNNING (as if the body were still executing)"""

def work(k1: str, k2: str, other: int = 0) -> int:
    raise Hold()

def work2(k1: str, k2: str, other: int = 0) -> int:
    raise Hold()

ARGS = [("a", "b", 0), ("a", "b", 1), ("a", "d", 0), ("x", "b", 0)]
MODES = ["DISABLED", "TASK", "ARGUMENTS", "KEYS"]
# ops: 0-3 submit ARGS[i]; 4 batch [A, A]; 5 batch [A, B]; 6 poll+start r1; 7 poll+start r2; 8 finish oldest RUNNING; 9 retry oldest RUNNING;
# 10 submit ARGS[0] to a SECOND task with the same parameter names and options
NOPS = 11

def keyfn(mode, targs):
    """the concurrency key always includes the task: (task, ...)"""
    tname, args = targs
    if mode == "DISABLED":
        return None
    if mode == "TASK":
        return (tname,)
    if mode == "ARGUMENTS":
        return (tname, args)
    return (tname, args[0])     # KEYS with key_arguments = ("k1",)

def world(kind, mode, reroute):
    reset_uuid()
    app = mk_app(kind, app_id="c06" + kind)
    opts = {"running_concurrency": getattr(CC, mode), "reroute_on_concurrency_control": reroute, "max_retries": 5}
    if mode == "KEYS":
        opts["key_arguments"] = ("k1",)
    task = app.task(**opts)(work)
    warm_task(task)
    task2 = app.task(**opts)(work2)
    warm_task(task2)
    return app, task, task2

def queue_snapshot(app):
    out = []
    while True:
        x = app.broker.retrieve_invocation()
        if x is None:
            break
        out.append(x)
    for x in out:
        app.broker.route_invocation(x)
    return out

def run_hist(kind, mode_i, reroute, ops):
    global LAST_DETAIL
    mode = MODES[mode_i]
    app, task, task2 = world(kind, mode, bool(reroute))
    orch = app.orchestrator
    ctxs = {"r1": runner_ctx("r1"), "r2": runner_ctx("r2")}
    args_of = {}       # invocation id -> args
    owner_of = {}      # running invocation id -> runner name
    inv_obj = {}
    log = []
    def fail(why):
        global LAST_DETAIL
        LAST_DETAIL = {"kind": kind, "mode": mode, "reroute": bool(reroute), "log": log, "why": why}
        return False
    def running_ids():
        return [i for i in args_of if orch.get_invocation_status(i) == St.RUNNING]
    for op in ops:
        if op <= 3:
            inv = task(*ARGS[op])
            args_of[inv.invocation_id] = ("work", ARGS[op]); inv_obj[inv.invocation_id] = inv
            log.append(("submit", ARGS[op]))
        elif op == 10:
            inv = task2(*ARGS[0])
            args_of[inv.invocation_id] = ("work2", ARGS[0]); inv_obj[inv.invocation_id] = inv
            log.append(("submit2", ARGS[0]))
        elif op in (4, 5):
            pair = [ARGS[0], ARGS[0]] if op == 4 else [ARGS[0], ARGS[2]]
            group = task.parallelize(pair)
            for inv, a in zip(group.invocations, pair):
                args_of[inv.invocation_id] = ("work", a); inv_obj[inv.invocation_id] = inv
            log.append(("batch", pair))
        elif op in (6, 7):
            rn = "r1" if op == 6 else "r2"
            before = {i: orch.get_invocation_status(i) for i in args_of}
            q_before = queue_snapshot(app)
            try:
                got = list(orch.get_invocations_to_run(1, ctxs[rn]))
            except InvocationStatusTransitionError as e:
                sig = f"C06:blocked-path:{e.from_status.value if e.from_status else None}->{e.to_status.value}"
                log.append(("poll", rn, "RAISED", sig))
                if sig in TOLERATE:
                    return True          # listed known finding: the rest of this history is not explored
                return fail(sig)
            except Exception as e:
                return fail("C06:poll-raised:" + type(e).__name__ + ":" + str(e)[:100])
            log.append(("poll", rn, [args_of.get(g.invocation_id) for g in got]))
            # different keys never block one another / a blocked one is finalised or re-queued per the option
            after = {i: orch.get_invocation_status(i) for i in args_of}
            for i in args_of:
                if before[i] != after[i] and after[i] in (St.CONCURRENCY_CONTROLLED_FINAL, St.CONCURRENCY_CONTROLLED, St.REROUTED) and before[i].is_available_for_run():
                    k = keyfn(mode, args_of[i])
                    blockers = [j for j in args_of if j != i and keyfn(mode, args_of[j]) == k and before[j] in (St.PENDING, St.RUNNING)]
                    also = [j for j in args_of if j != i and keyfn(mode, args_of[j]) == k and after[j] in (St.PENDING, St.RUNNING)]
                    if mode == "DISABLED" or not (blockers or also):
                        return fail(f"C06:blocked-without-same-key-holder:{args_of[i]}")
                    if reroute:
                        if after[i] != St.REROUTED or i not in queue_snapshot(app):
                            return fail(f"C06:reroute-option-not-requeued:{after[i].value}")
                    elif after[i] != St.CONCURRENCY_CONTROLLED_FINAL:
                        return fail(f"C06:final-option-not-final:{after[i].value}")
            for g in got:
                try:
                    g.run(ctxs[rn])
                except Hold:
                    pass
                if orch.get_invocation_status(g.invocation_id) == St.RUNNING:
                    owner_of[g.invocation_id] = rn
        elif op == 8:
            r = running_ids()
            if r:
                orch.set_invocation_result(inv_obj[r[0]], 1, ctxs[owner_of[r[0]]])
            log.append(("finish", args_of.get(r[0]) if r else None))
        else:
            r = running_ids()
            if r:
                orch.set_invocation_retry(r[0], RuntimeError("again"), ctxs[owner_of[r[0]]])
            log.append(("retry", args_of.get(r[0]) if r else None))
        # THE invariant: never two RUNNING with the same key
        if mode != "DISABLED":
            seen = {}
            for i in running_ids():
                k = keyfn(mode, args_of[i])
                if k in seen:
                    via = "batch" if any(l[0] == "batch" for l in log) else "single"
                    return fail(f"C06:two-running-same-key:{mode}:{via}")
                seen[k] = i
    LAST_DETAIL = {"log": log}
    return True

def both(mode_i, reroute, ops, warm=0):
    mode_i = pick(mode_i, 0, 3); reroute = pick(reroute, 0, 1); warm = pick(warm, 0, 1)
    ops = [pick(o, 0, NOPS - 1) for o in ops]
    if warm:
        ops = [0, 6] + ops       # reachable pre-state: work(a,b,0) submitted, claimed and RUNNING under r1
    with NoTracing():
        return run_hist("mem", mode_i, reroute, ops) and run_hist("sqlite", mode_i, reroute, ops)
'''

H = r'''
def hist_m__M___o__K__(reroute: int, o2: int, o3: int__EXTRA_SIG__) -> bool:
    """
    pre: 0 <= reroute <= 1 and 0 <= o2 < NOPS and 0 <= o3 < NOPS__EXTRA_PRE__
    post: _
    """
    return both(__M__, reroute, [__K__, o2, o3__EXTRA_ARG__], __WARM__)
'''

EXTRA = r'''
def twin(mode_i: int, reroute: int, o1: int, o2: int) -> bool:
    """
    pre: 0 <= mode_i <= 3 and 0 <= reroute <= 1 and 0 <= o1 < NOPS and 0 <= o2 < NOPS
    post: _
    """
    both(mode_i, reroute, [o1, o2])
    return False

def canary_keys(o3: int) -> bool:
    """
    pre: 0 <= o3 < NOPS
    post: _
    """
    # wrong spec on purpose: KEYS modelled as ARGUMENTS -> (a,b,0) running and (a,d,0) must not block: refuted
    global keyfn
    old = keyfn
    keyfn = lambda mode, targs: targs if mode == "KEYS" else old(mode, targs)
    try:
        return both(3, 0, [0, 6, 2, 6, o3])
    finally:
        keyfn = old

def finding_blocked_retry_final() -> bool:
    """
    post: _
    """
    # TASK mode: submit A, start A, retry A (RETRY, re-queued), submit B, start B (claims A? no: queue order A-retry, B) ...
    global TOLERATE
    old, TOLERATE = TOLERATE, set()
    try:
        return both(1, 0, [0, 2, 6, 9, 7, 6])
    finally:
        TOLERATE = old

def finding_blocked_retry_reroute() -> bool:
    """
    post: _
    """
    global TOLERATE
    old, TOLERATE = TOLERATE, set()
    try:
        return both(1, 1, [0, 2, 6, 9, 7, 6])
    finally:
        TOLERATE = old
'''


def _key_from_replay(args, kwargs, replay_out):
    m = re.search(r"'why': '([^']+)'", replay_out or "")
    return m.group(1) if m else "C06:unclassified"


def run(ctx: Ctx) -> None:
    thorough = ctx.tier == "thorough"
    tolerate = sorted(k for k in ctx.known_keys() if k.startswith("C06:blocked-path:"))
    src = SRC.replace("__TOLERATE__", repr(tolerate))
    conds = []
    for m in range(4):
        for k in range(11):
            f = H.replace("__M__", str(m)).replace("__K__", str(k))
            if thorough:
                f = f.replace("__EXTRA_SIG__", ", o4: int, warm: int").replace("__EXTRA_PRE__", " and 0 <= o4 < NOPS and 0 <= warm <= 1").replace("__EXTRA_ARG__", ", o4").replace("__WARM__", "warm")
            else:
                f = f.replace("__EXTRA_SIG__", "").replace("__EXTRA_PRE__", "").replace("__EXTRA_ARG__", "").replace("__WARM__", "1")
            src += f
            conds.append(Cond(f"hist_m{m}_o{k}", "confirm", 3000 if thorough else 600, keyfn=_key_from_replay))
    src += EXTRA
    conds += [Cond("twin", "refute", 60), Cond("canary_keys", "refute", 300)]
    conds.append(Cond("finding_blocked_retry_final", "finding", 300,
                      key="C06:blocked-path:retry->concurrency_controlled_final",
                      what="TASK mode, reroute off: A RUNNING->RETRY (re-queued), B claimed+RUNNING, next poll pops A (RETRY) which is blocked: RETRY->CONCURRENCY_CONTROLLED_FINAL is not an edge, get_invocations_to_run raises"))
    conds.append(Cond("finding_blocked_retry_reroute", "finding", 300,
                      key="C06:blocked-path:retry->concurrency_controlled",
                      what="same with reroute_on_concurrency_control: RETRY->CONCURRENCY_CONTROLLED is not an edge, get_invocations_to_run raises"))
    res = ctx.ch_batch("c06", src, conds)
    from props import C06_sched
    C06_sched.run(ctx)
    ctx.functions_encoded += [
        "Task.__call__, Task.parallelize -> distribute_batch_calls -> BaseOrchestrator.route_calls",
        "BaseOrchestrator.get_invocations_to_run/get_additional_invocations_to_run/_is_authorize_by_concurrency_control/reroute_invocations/set_invocation_retry/set_invocation_result",
        "DistributedInvocation.run (authorisation check + RUNNING)", "Call.serialized_args_for_concurrency_control",
        "Mem/SQLite get_existing_invocations + index_arguments_for_concurrency_control",
    ]
    ctx.bounds = {
        "history": ("prefix [submit work(a,b,0); poll+start by r1] (thorough: with and without) + " + f"{4 if thorough else 3} free ops over 11 letters "
                    "(submit 4 argument tuples, 2 batch shapes, poll+start by r1 / r2, finish, retry, submit to a second task with the same parameters)"),
        "modes": "DISABLED, TASK, ARGUMENTS, KEYS(k1) x reroute_on_concurrency_control",
        "runners": "histories: two runners polling sequentially; simultaneous polling/starting: SCHED part (C06_sched)",
    }
    ctx.stubs += ["task body raises a BaseException so that the invocation stays RUNNING until the harness finishes it",
                  "sync history threads", "counter clock", "deterministic uuid4"]
    ctx.assumptions += ["histories that hit a listed known finding stop at that point (the remainder is not explored)"]
