"""C15 — arguments/results round trip unchanged, call identity canonical (DESIGN 3/C15).

Verify set (CrossHair):
 1. size routing of BaseClientDataStore.serialize/_maybe_store for symbolic content length, thresholds and flags (traced);
 2. content addressing + LRU: symbolic op sequences serialize/resolve/purge, cache size 0..2, both stores;
 3. TaskId / CallId key round trip for short symbolic strings (traced);
 4. call spellings (positional / keyword / defaults omitted) give the same call identity.
Hunt set (never counted as discharged): injectivity / order independence of compute_args_id's byte stream.
"""

import re

from engine.core import Cond, Ctx

ROUTE = r'''
from types import SimpleNamespace
from typing import Optional
from engine.hsupport import *
import pynenc.client_data_store.base_client_data_store as bcds
from pynenc.client_data_store.mem_client_data_store import MemClientDataStore
from pynenc.identifiers.task_id import TaskId
from pynenc.identifiers.call_id import CallId

PREFIX = "__pynenc__client_data__"
# hash stand-in, injective by construction (assumption: SHA-256 is collision-free on the inputs in play)
bcds._generate_key = lambda value: PREFIX + ":" + value

class _IdSer:
    def serialize(self, obj): return obj
    def deserialize(self, s): return s

with NoTracing():
    APP = mk_app("mem", app_id="c15route")
    APP._serializer = _IdSer()

def store(min_size, max_size, disabled):
    st = MemClientDataStore(APP)
    st.__dict__["conf"] = SimpleNamespace(min_size_to_cache=min_size, max_size_to_cache=max_size, disable_client_data_store=disabled,
                                          warn_threshold=10**9, local_cache_size=4, compression_enabled=False)
    return st

def route(n: int, min_size: int, max_size: int, disabled: bool, disable_cache: bool) -> bool:
    """
    pre: 0 <= n <= 6 and min_size >= 0 and max_size >= 0
    post: _
    """
    s = "x" * pick(n, 0, 6)          # routing depends on the length only; thresholds stay unbounded symbolic ints
    st = store(min_size, max_size, disabled)
    out = st.serialize(s, disable_cache=disable_cache)
    n = len(s)
    expect_ref = (not disabled) and (not disable_cache) and n >= min_size and (max_size == 0 or n <= max_size)
    is_ref = st.is_reference(out)
    if is_ref != expect_ref:
        return False
    if not is_ref:
        return out == s                 # inline result is the serializer output unchanged
    st._deserialized_cache.clear()
    return st.resolve(out) == s and st.serialize(s) == out   # content-addressed: same content, same reference

def route_twin(n: int, min_size: int, max_size: int) -> bool:
    """
    pre: 0 <= n <= 6 and min_size >= 0 and max_size >= 0
    post: _
    """
    route(n, min_size, max_size, False, False)
    return False

def route_canary(n: int, min_size: int) -> bool:
    """
    pre: 0 <= n <= 6 and min_size >= 0
    post: _
    """
    # wrong spec on purpose (strict >): the boundary len == min_size must refute it
    s = "x" * pick(n, 0, 6)
    st = store(min_size, 0, False)
    out = st.serialize(s)
    return st.is_reference(out) == (len(s) > min_size)

def taskid_roundtrip(m: str, f: str) -> bool:
    """
    pre: 1 <= len(m) <= 3 and 1 <= len(f) <= 3
    pre: "." not in f
    post: _
    """
    t = TaskId(m, f)
    r = TaskId.from_key(t.key)
    return r.module == m and r.func_name == f

def taskid_rejects(key: str) -> bool:
    """
    pre: len(key) <= 3
    post: _
    """
    valid = "." in key and len(key.rpartition(".")[0]) > 0 and len(key.rpartition(".")[2]) > 0
    try:
        t = TaskId.from_key(key)
    except ValueError:
        return not valid
    return valid and t.key == key

def callid_roundtrip(m: str, f: str, a: str) -> bool:
    """
    pre: 1 <= len(m) <= 2 and 1 <= len(f) <= 2 and len(a) <= 2
    pre: "." not in f and ":" not in a
    post: _
    """
    c = CallId(TaskId(m, f), a)
    r = CallId.from_key(c.key)
    return r.task_id.module == m and r.task_id.func_name == f and r.args_id == a
'''

LRU = r'''
from engine.hsupport import *
LAST_DETAIL = None
CONTENTS = [["a", 1, "x" * 4], ["b", 2, "y" * 4], {"k": [3, "z" * 4]}]
# ops: 0-2 serialize content i ; 3-5 resolve the reference of content i ; 6 purge ; 7-9 mutate the caller's object i after it was serialized ;
# 10 the shared backend is purged by ANOTHER process (this process' local cache is untouched)
NOPS = 11

def run_ops(kind, cache_size, ops, fresh_reader):
    global LAST_DETAIL
    app = mk_app(kind, app_id="c15lru" + kind, min_size_to_cache=0, local_cache_size=cache_size)
    st = app.client_data_store
    import copy
    objs = [copy.deepcopy(c) for c in CONTENTS]
    refs = {}
    created_from = {}
    log = []
    for op in ops:
        if op <= 2:
            try:
                ref = st.serialize(objs[op])
            except Exception as e:
                LAST_DETAIL = {"kind": kind, "cache": cache_size, "log": log, "why": "C15:serialize-raised:" + type(e).__name__ + ":cache_size=" + str(cache_size)}
                return False
            if not st.is_reference(ref):
                LAST_DETAIL = {"why": "C15:not-externalised"}; return False
            snapshot = copy.deepcopy(objs[op])
            if op in refs and created_from[refs[op]] == snapshot and refs[op] != ref:
                LAST_DETAIL = {"log": log, "why": "C15:same-content-different-reference"}; return False
            refs[op] = ref
            created_from.setdefault(ref, snapshot)
            log.append(("ser", op))
        elif op <= 5:
            i = op - 3
            if i in refs:
                if fresh_reader:
                    st._deserialized_cache.clear()      # another process: no local cache
                try:
                    got = st.resolve(refs[i])
                except Exception as e:
                    LAST_DETAIL = {"kind": kind, "log": log, "why": "C15:resolve-raised:" + type(e).__name__}; return False
                if got != created_from[refs[i]]:
                    LAST_DETAIL = {"kind": kind, "cache": cache_size, "log": log + [("res", i)], "got": got, "created_from": created_from[refs[i]],
                                   "why": "C15:reference-resolves-to-other-content" + ("" if fresh_reader else ":same-process-alias")}
                    return False
            log.append(("res", i))
        elif op == 6:
            st.purge(); refs.clear(); created_from.clear()
            log.append(("purge",))
        elif op == 10:
            st._purge(); refs.clear(); created_from.clear()       # what another app instance's purge does to the shared storage
            log.append(("purge-by-other-process",))
        else:
            i = op - 7
            if isinstance(objs[i], list):
                objs[i].append("mutated")
            else:
                objs[i]["mutated"] = True
            log.append(("mutate", i))
    return True

def go(kind_i, cache_size, ops, fresh_reader):
    kind_i = pick(kind_i, 0, 1); cache_size = pick(cache_size, 0, 2); ops = [pick(o, 0, NOPS - 1) for o in ops]
    with NoTracing():
        return run_ops(["mem", "sqlite"][kind_i], cache_size, ops, fresh_reader)
'''

LRUF = r'''
def lru___A__(kind_i: int, cache_size: int, o2: int, o3: int, o4: int) -> bool:
    """
    pre: 0 <= kind_i <= 1 and 1 <= cache_size <= 2 and 0 <= o2 < NOPS and 0 <= o3 < NOPS and __O4PRE__
    post: _
    """
    return go(kind_i, cache_size, [__A__, o2, o3, o4][:__LEN__], True)
'''

LRUX = r'''
def lru_after_foreign_purge(kind_i: int, cache_size: int, i: int, o3: int, o4: int) -> bool:
    """
    pre: 0 <= kind_i <= 1 and 1 <= cache_size <= 2 and 0 <= i <= 2 and 0 <= o3 < NOPS and 0 <= o4 < NOPS
    post: _
    """
    # reachable pre-state: content i serialised (local cache warm), then the shared backend purged by another process
    i = pick(i, 0, 2)
    return go(kind_i, cache_size, [i, 10, o3, o4], True)

def lru_twin(kind_i: int, o1: int, o2: int) -> bool:
    """
    pre: 0 <= kind_i <= 1 and 0 <= o1 < NOPS and 0 <= o2 < NOPS
    post: _
    """
    go(kind_i, 1, [o1, o2], True)
    return False

def cache_size_zero(kind_i: int, o1: int, o2: int) -> bool:
    """
    pre: 0 <= kind_i <= 1 and 0 <= o1 < NOPS and 0 <= o2 < NOPS
    post: _
    """
    return go(kind_i, 0, [o1, o2], True)

def finding_same_process_alias(kind_i: int, i: int) -> bool:
    """
    pre: 0 <= kind_i <= 1 and 0 <= i <= 2
    post: _
    """
    # serialize content i, mutate the caller's object, resolve in the SAME process (local cache kept)
    i = pick(i, 0, 2)
    return go(kind_i, 2, [i, 7 + i, 3 + i], False)
'''

SPELL = r'''
from engine.hsupport import *
from pynenc.arguments import Arguments
from pynenc.call import Call
LAST_DETAIL = None

def f0(a: int, b: int = 2, c: str = "x") -> int: return 0
def f1(a: int, *, key: str = "k", flag: bool = False) -> int: return 0
def f2(x: str, y: list = None) -> int: return 0
def f3(p: int, q: int, r: int = 0, s: int = 1) -> int: return 0
FUNCS = [f0, f1, f2, f3]
VALUES = {"a": 7, "b": 2, "c": "x", "key": "k", "flag": False, "x": "s", "y": None, "p": 1, "q": 2, "r": 0, "s": 1}

def spell(fi, npos, omit_mask):
    global LAST_DETAIL
    import inspect
    app = mk_app("mem", app_id="c15spell")
    fn = FUNCS[fi]
    task = app.task(fn); warm_task(task)
    params = list(inspect.signature(fn).parameters.values())
    canonical = Call(task, Arguments.from_call(fn, **{p.name: VALUES[p.name] for p in params})).call_id
    pos, kw = [], {}
    for idx, p in enumerate(params):
        has_default = p.default is not inspect.Parameter.empty
        if p.kind == p.KEYWORD_ONLY or idx >= npos:
            if has_default and (omit_mask >> idx) & 1:
                continue           # default omitted
            kw[p.name] = VALUES[p.name]
        else:
            pos.append(VALUES[p.name])
    cid = Call(task, Arguments.from_call(fn, *pos, **kw)).call_id
    via_task = task.args(*pos, **kw)
    cid2 = Call(task, via_task).call_id
    LAST_DETAIL = {"fn": fn.__name__, "pos": pos, "kw": kw, "ids": (canonical.key, cid.key, cid2.key)}
    return cid == canonical and cid2 == canonical and cid.key == canonical.key

def spellings(fi: int, npos: int, omit_mask: int) -> bool:
    """
    pre: 0 <= fi <= 3 and 0 <= npos <= 4 and 0 <= omit_mask <= 15
    post: _
    """
    fi = pick(fi, 0, 3); npos = pick(npos, 0, 4); omit_mask = pick(omit_mask, 0, 15)
    with NoTracing():
        return spell(fi, npos, omit_mask)

def _make(default):
    def resize(name: str, width: int = default) -> int:
        return width
    return resize

def redefined(order: int, d1: int, d2: int) -> bool:
    """
    pre: 0 <= order <= 1 and 0 <= d1 <= 2 and 0 <= d2 <= 2
    post: _
    """
    # two function objects with the same module and qualified name (a reloaded module, a factory) but their own defaults: the
    # omitted default of each call is the default of the function that is being called
    global LAST_DETAIL
    order = pick(order, 0, 1); d1 = [100, 250, 7][pick(d1, 0, 2)]; d2 = [100, 250, 7][pick(d2, 0, 2)]
    with NoTracing():
        fns = [(_make(d1), d1), (_make(d2), d2)]
        if order:
            fns.reverse()
        for fn, d in fns:
            omitted = Arguments.from_call(fn, "a")
            spelled = Arguments.from_call(fn, "a", width=d)
            keyword = Arguments.from_call(fn, name="a")
            LAST_DETAIL = {"default_of_called_function": d, "bound": dict(omitted.kwargs), "why": "C15:omitted-default-taken-from-another-function-object"}
            if dict(omitted.kwargs) != {"name": "a", "width": d} or dict(keyword.kwargs) != dict(spelled.kwargs) or dict(omitted.kwargs) != dict(spelled.kwargs):
                return False
        LAST_DETAIL = None
        return True

def spell_twin(fi: int, npos: int) -> bool:
    """
    pre: 0 <= fi <= 3 and 0 <= npos <= 4
    post: _
    """
    spellings(fi, npos, 0)
    return False
'''

HUNT = r'''
from typing import Dict
import json
import pynenc.call as pc

def _model_dumps(s, ensure_ascii=False):
    out = ['"']
    for ch in s:
        o = ord(ch)
        if ch == '"': out.append('\\"')
        elif ch == "\\": out.append("\\\\")
        elif ch == "\n": out.append("\\n")
        elif ch == "\r": out.append("\\r")
        elif ch == "\t": out.append("\\t")
        elif ch == "\b": out.append("\\b")
        elif ch == "\f": out.append("\\f")
        elif o < 0x20: out.append("\\u%04x" % o)
        else: out.append(ch)
    out.append('"')
    return "".join(out)

MISMATCH = [c for c in range(0x0, 0xD800) if _model_dumps(chr(c)) != json.dumps(chr(c), ensure_ascii=False)]
assert not MISMATCH, MISMATCH[:5]

class _Rec:
    def __init__(self): self.parts = []
    def update(self, b): self.parts.append(b)
    def hexdigest(self): return b"".join(self.parts)

class _Hashlib:
    @staticmethod
    def sha256(*a): return _Rec()
class _Json:
    dumps = staticmethod(_model_dumps)
pc.hashlib = _Hashlib
pc.json = _Json

def args_id_injective(k1: str, v1: str, k2: str, v2: str, k3: str, v3: str, k4: str, v4: str) -> bool:
    """
    pre: len(k1) <= 2 and len(v1) <= 2 and len(k2) <= 2 and len(v2) <= 2
    pre: len(k3) <= 2 and len(v3) <= 2 and len(k4) <= 2 and len(v4) <= 2
    pre: k1 != k2 and k3 != k4
    post: _
    """
    d1 = {k1: v1, k2: v2}
    d2 = {k3: v3, k4: v4}
    same_id = pc.compute_args_id(d1) == pc.compute_args_id(d2)
    return same_id == (d1 == d2)

def args_id_order(k1: str, v1: str, k2: str, v2: str) -> bool:
    """
    pre: len(k1) <= 2 and len(v1) <= 2 and len(k2) <= 2 and len(v2) <= 2 and k1 != k2
    post: _
    """
    return pc.compute_args_id({k1: v1, k2: v2}) == pc.compute_args_id({k2: v2, k1: v1})
'''


SHAPE = r'''
from engine.hsupport import *
from engine import standins
from engine.valuekinds import build, describe, same
standins.install_sync_history()
LAST_DETAIL = None
SERIALIZERS = ["JsonSerializer", "PickleSerializer", "JsonPickleSerializer"]

def echo(v=None):
    return v

def trip(ser, kind, min_size, wrappers, leaf_i):
    """one value through every storage path of the real stack: client -> storage -> worker -> client"""
    global LAST_DETAIL
    reset_uuid()
    v = build(wrappers, leaf_i)
    what = describe(wrappers, leaf_i)
    app = mk_app(kind, app_id="c15v" + kind, serializer_cls=ser, min_size_to_cache=min_size, local_cache_size=8)
    task = app.task(echo); warm_task(task)
    cds = app.client_data_store
    def fail(why, got=None):
        global LAST_DETAIL
        LAST_DETAIL = {"serializer": ser, "backend": kind, "min_size_to_cache": min_size, "value": what, "got": repr(got)[:120], "why": why}
        return False
    try:
        # 1. the serializer alone
        r = app.serializer.deserialize(app.serializer.serialize(v))
        if not same(v, r):
            return fail("C15:value-changed:serializer", r)
        # 2. client data store (inline or externalised), read by another process (no local cache)
        ref = cds.serialize(v)
        cds._deserialized_cache.clear()
        r = cds.resolve(ref)
        if not same(v, r):
            return fail("C15:value-changed:client-data-store", r)
        # 3. as a task argument: what a worker loads from the state backend
        inv = task(v)
        cds._deserialized_cache.clear()
        loaded = app.state_backend.get_invocation(inv.invocation_id)
        r = loaded.call.arguments.kwargs["v"]
        if not same(v, r):
            return fail("C15:value-changed:argument-seen-by-worker", r)
        # 4. as a result: stored by the worker, read by the client
        app.state_backend.set_result(inv.invocation_id, v)
        cds._deserialized_cache.clear()
        r = app.state_backend.get_result(inv.invocation_id)
        if not same(v, r):
            return fail("C15:value-changed:result-read-by-client", r)
    except Exception as e:
        return fail("C15:value-round-trip-raised:" + type(e).__name__, str(e)[:100])
    LAST_DETAIL = {"value": what, "why": None}
    return True

def values___S_____K_____E_____LLO__(w1: int, w2: int, w3: int, leaf_i: int) -> bool:
    """
    pre: 0 <= w1 <= 4 and 0 <= w2 <= 4 and 0 <= w3 <= 4 and __LLO__ <= leaf_i <= __LHI__
    post: _
    """
    w1 = pick(w1, 0, 4); w2 = pick(w2, 0, 4); w3 = pick(w3, 0, 4); leaf_i = pick(leaf_i, __LLO__, __LHI__)
    with NoTracing():
        return trip(SERIALIZERS[__S__], ["mem", "sqlite"][__K__], [10**6, 0][__E__], [w1, w2, w3], leaf_i)
'''

SHAPEX = r'''
def values_twin(w1: int, leaf_i: int) -> bool:
    """
    pre: 0 <= w1 <= 4 and 0 <= leaf_i <= 14
    post: _
    """
    w1 = pick(w1, 0, 4); leaf_i = pick(leaf_i, 0, 14)
    with NoTracing():
        trip("JsonSerializer", "mem", 0, [w1, 0, 0], leaf_i)
    return False

def values_canary(w1: int, w2: int, leaf_i: int) -> bool:
    """
    pre: 0 <= w1 <= 4 and 0 <= w2 <= 4 and 0 <= leaf_i <= 14
    post: _
    """
    # canary: a reconstruction that does not descend into lists nested in lists must be refuted
    import pynenc.serializer.json_serializer as js
    orig = js._reconstruct_from_json
    def shallow(data):
        if isinstance(data, list):
            return [orig(x) if isinstance(x, dict) else x for x in data]
        return orig(data)
    js._reconstruct_from_json = shallow
    w1 = pick(w1, 0, 4); w2 = pick(w2, 0, 4); leaf_i = pick(leaf_i, 0, 14)
    try:
        with NoTracing():
            return trip("JsonSerializer", "mem", 10**6, [w1, w2, 0], leaf_i)
    finally:
        js._reconstruct_from_json = orig
'''


def _key_from_replay(args, kwargs, replay_out):
    m = re.search(r"'why': '([^']+)'", replay_out or "")
    return m.group(1) if m else "C15:unclassified"


def run(ctx: Ctx) -> None:
    thorough = ctx.tier == "thorough"
    ctx.ch_batch("c15route", ROUTE, [
        Cond("route", "confirm", 600), Cond("route_twin", "refute", 60), Cond("route_canary", "refute", 120),
        Cond("taskid_roundtrip", "confirm", 600), Cond("taskid_rejects", "confirm", 600), Cond("callid_roundtrip", "confirm", 900),
    ])
    src = LRU
    conds = []
    for a in range(11):
        src += LRUF.replace("__A__", str(a)).replace("__O4PRE__", "0 <= o4 < NOPS" if thorough else "o4 == 0").replace("__LEN__", "4" if thorough else "3")
        conds.append(Cond(f"lru_{a}", "confirm", 3000 if thorough else 900, keyfn=_key_from_replay))
    src += LRUX
    conds += [Cond("lru_after_foreign_purge", "confirm", 900, keyfn=_key_from_replay), Cond("lru_twin", "refute", 60),
              Cond("cache_size_zero", "confirm", 300, keyfn=_key_from_replay),
              Cond("finding_same_process_alias", "finding", 120, key="C15:reference-resolves-to-other-content:same-process-alias",
                   what="serialize(obj) caches the caller's own object under the reference: after the caller mutates obj, resolve(ref) in the same process returns the mutated value")]
    ctx.ch_batch("c15lru", src, conds)
    vsrc, vconds = SHAPE.split("def values___S__")[0], []
    vf = "def values___S__" + SHAPE.split("def values___S__")[1]
    for si in range(3):
        for k in range(2):
            for e in range(2):
                for llo, lhi in ((0, 7), (8, 14)):
                    vsrc += vf.replace("__S__", str(si)).replace("__K__", str(k)).replace("__E__", str(e)).replace("__LLO__", str(llo)).replace("__LHI__", str(lhi))
                    vconds.append(Cond(f"values_{si}_{k}_{e}_{llo}", "confirm", 1500, keyfn=_key_from_replay))
    vsrc += SHAPEX
    vconds += [Cond("values_twin", "refute", 60), Cond("values_canary", "refute", 300)]
    ctx.ch_batch("c15values", vsrc, vconds)
    ctx.bounds["values"] = ("value grammar: up to 3 nested wrappers from {[x], [x, 7], {'k': x}, {'k': x, 'n': 1}} around a leaf from {int, str, float, None, bool, Enum, IntEnum, StrEnum, "
                            "builtin exception, client exception (each with and without arguments), JsonSerializable object, [], {}}; JsonSerializer / PickleSerializer / JsonPickleSerializer; inline and externalised; both backends; "
                            "paths: serializer alone, client data store read by another process, task argument loaded by a worker, result read by the client")
    ctx.functions_encoded += ["JsonSerializer.serialize/deserialize (_preprocess_for_json, DefaultJSONEncoder.default, _reconstruct_from_json), PickleSerializer, JsonPickleSerializer",
                              "BaseClientDataStore.serialize/resolve, serialize_arguments/deserialize_arguments; state backend upsert/get_invocation, set_result/get_result"]
    ctx.ch_batch("c15spell", SPELL, [Cond("spellings", "confirm", 600), Cond("redefined", "confirm", 300, keyfn=_key_from_replay), Cond("spell_twin", "refute", 60)])
    budget = 900 if thorough else 120
    ctx.ch_batch("c15hunt", HUNT, [Cond("args_id_injective", "hunt", budget), Cond("args_id_order", "hunt", budget)])
    ctx.functions_encoded += ["BaseClientDataStore.serialize/_maybe_store/resolve/_resolve_reference/_cache_deserialized/purge", "Mem/SQLite client data store _store/_retrieve/_purge",
                              "TaskId.key/from_key", "CallId.key/from_key", "Arguments.from_call", "Call.call_id/args_id", "compute_args_id (hunt only)"]
    ctx.bounds = {"routing": "content length 0..6, thresholds unbounded non-negative symbolic ints (real _maybe_store traced), both flags",
                  "lru": "3 ops (thorough 4; plus 2 free ops after [serialize, foreign purge]) over 11 letters (serialize / resolve / purge / purge of the shared backend by another process / mutate-the-caller's-object over 3 contents), cache size 1..2 (+ size 0 separately), both stores, reader without local cache",
                  "ids": "module/function/args-id strings of length <= 3 / <= 2",
                  "spellings": "4 signatures (defaults, keyword-only, None default), positional prefix 0..4, every subset of omitted defaults",
                  "hunt": f"{budget}s per condition: two dicts of 2 entries, strings <= 2 chars, json.dumps replaced by a pure model validated on every code point below U+D800"}
    ctx.stubs += ["_generate_key (SHA-256) replaced by an injective stand-in in the routing harness", "identity serializer in the routing harness"]
    ctx.assumptions += ["SHA-256 is collision-free on the inputs in play",
                        "round trip of arbitrary VALUES through JsonSerializer / PickleSerializer / JsonPickleSerializer is NOT covered (C code, realised at the boundary)",
                        "call-id injectivity beyond the hunt bounds is not established"]
