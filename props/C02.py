"""C02 — an invocation is held by at most one runner under any interleaving (DESIGN 3/C02).

Engine SCHED: the real transition / polling methods rewritten into steppable generators from their
current source; the start state, the two requests, the first actor and the preemption points are
symbolic (CrossHair + z3); oracle = linearisability against the independent status table.
"""

from engine.core import Cond, Ctx

COMMON = r'''
from collections import defaultdict
from datetime import datetime, UTC
from engine.hsupport import *
from engine import standins, coop
from engine.specs.status_spec import STATUSES, spec_step, AVAILABLE, OWNED
from pynenc.invocation.status import InvocationStatus, InvocationStatusRecord
from pynenc.exceptions import InvocationStatusTransitionError, InvocationStatusOwnershipError, InvocationStatusError
import pynenc.orchestrator.mem_orchestrator as mo
import pynenc.orchestrator.sqlite_orchestrator as so
import pynenc.orchestrator.base_orchestrator as bo
import pynenc.broker.sqlite_broker as sb
import pynenc.broker.mem_broker as mb

standins.install_sync_history()
CLOCK = standins.CounterClock(1_600_000_000.0)
standins.patch_clock(CLOCK, mo, so)
S = [InvocationStatus(s) for s in STATUSES]
TS0 = datetime(2020, 1, 1, tzinfo=UTC)
OWN = [None, "r1", "r2"]
RID = ["r1", "r2"]
LAST_DETAIL = None

def body() -> int:
    return 1

MEM_NAMES = ["_atomic_status_transition", "_get_invocation_lock", "_interanl_atomic_status_transition"]
POINTS = {}
def install(never_block=False):
    mo.threading = coop.CoopThreading(never_block=never_block)
    POINTS.update(coop.yieldify(mo.MemOrchestrator, MEM_NAMES))
    coop.install_sqlite_standin()
    POINTS.update({"sql." + k: v for k, v in coop.yieldify(so.SQLiteOrchestrator, ["_atomic_status_transition"], sql=True).items()})

def fresh(kind):
    reset_uuid()
    app = mk_app(kind, app_id="c02" + kind)
    task = app.task(body)
    warm_task(task)
    invs = new_invocations(app, task, 1)
    return app, invs[0].invocation_id

def force_mem(orch, iid, cur, owner):
    orch.invocation_status_record[iid] = InvocationStatusRecord(S[cur], owner, TS0)
    orch.status_index = defaultdict(set)
    orch.status_index[S[cur]].add(iid)
    orch.locks.clear()

def force_sql(orch, iid, cur, owner):
    with coop.coop_sqlite_connection(orch.sqlite_db_path) as conn:
        conn.execute(f"UPDATE {orch.tables.INVOCATIONS} SET status=?, status_runner_id=?, status_timestamp=? WHERE invocation_id=?",
                     (S[cur].value, owner, 1577836800.0, iid))
        conn.commit()

def outcome(a):
    if a.error is None:
        return "ok"
    if isinstance(a.error, InvocationStatusTransitionError):
        return "T"
    if isinstance(a.error, InvocationStatusOwnershipError):
        return "O"
    return "ERR:" + type(a.error).__name__ + ":" + str(a.error)[:80]

def serial(cur, owner, reqs, order):
    st, ow = STATUSES[cur], owner
    outs = {}
    for idx in order:
        new, rid = reqs[idx]
        r = spec_step(st, ow, STATUSES[new], rid)
        outs[idx] = r[0]
        if r[0] == "ok":
            st, ow = r[1], r[2]
    return [outs[i] for i in range(len(reqs))], st, ow

def race(kind, cur, oi, reqs, first, slices):
    """reqs: list of (new_status_index, requester). Linearisable iff outcomes+final record match a serial order."""
    global LAST_DETAIL
    import itertools
    app, iid = fresh(kind)
    orch = app.orchestrator
    owner = OWN[oi]
    (force_mem if kind == "mem" else force_sql)(orch, iid, cur, owner)
    actors = [coop.Actor(f"a{i}", orch._atomic_status_transition__gen(iid, S[new], rid)) for i, (new, rid) in enumerate(reqs)]
    res = coop.run_schedule(actors, first, slices)
    rec = orch.get_invocation_status_record(iid)
    got = ([outcome(a) for a in actors], rec.status.value, rec.runner_id)
    LAST_DETAIL = {"kind": kind, "start": (STATUSES[cur], owner), "requests": [(STATUSES[n], r) for n, r in reqs],
                   "got": got, "schedule": res["schedule"], "traces": [a.trace for a in actors]}
    coop.close_all_connections()
    if res["deadlock"]:
        return False
    for order in itertools.permutations(range(len(reqs))):
        outs, st, ow = serial(cur, owner, reqs, order)
        if (outs, st, ow) == got:
            return True
    return False
'''

RACE2 = r'''
install()

def mem_race_c__K__(oi: int, n1: int, n2: int, r1: int, r2: int, first: int, k1: int, k2: int) -> bool:
    """
    pre: 0 <= oi <= 2 and 0 <= n1 <= 13 and 0 <= n2 <= 13 and 0 <= r1 <= 1 and 0 <= r2 <= 1
    pre: 0 <= first <= 1 and 0 <= k1 <= KMAX and 0 <= k2 <= KMAX
    post: _
    """
    oi = pick(oi, 0, 2); n1 = pick(n1, 0, 13); n2 = pick(n2, 0, 13); r1 = pick(r1, 0, 1); r2 = pick(r2, 0, 1)
    with NoTracing():
        return race("mem", __K__, oi, [(n1, RID[r1]), (n2, RID[r2])], first, [k1, k2])
'''

POLL = r'''
BASE_NAMES = ["get_invocations_to_run", "get_blocking_invocations_to_run", "get_additional_invocations_to_run",
              "reroute_invocations", "set_invocation_status"]
ALL = set(BASE_NAMES + MEM_NAMES + ["retrieve_invocation"])
def install_poll(drop_begin=False):
    mo.threading = coop.CoopThreading()
    coop.install_sqlite_standin()
    POINTS.update(coop.yieldify(bo.BaseOrchestrator, BASE_NAMES, all_names=ALL))
    POINTS.update(coop.yieldify(mo.MemOrchestrator, MEM_NAMES, all_names=ALL))
    POINTS.update(coop.yieldify(mb.MemBroker, ["retrieve_invocation"], all_names=ALL))
    drop = None
    if drop_begin:
        import ast
        def drop(st):
            return isinstance(st, ast.Expr) and isinstance(st.value, ast.Call) and any(
                isinstance(a, ast.Constant) and a.value == "BEGIN IMMEDIATE" for a in st.value.args)
    coop.yieldify(so.SQLiteOrchestrator, ["_atomic_status_transition"], all_names=ALL, sql=True, drop_stmt=drop)
    coop.yieldify(sb.SQLiteBroker, ["retrieve_invocation"], all_names=ALL, sql=True)

def poll_world(kind, copies, two_ids, blocking):
    reset_uuid()
    app = mk_app(kind, app_id="c02p" + kind)
    task = app.task(body)
    warm_task(task)
    invs = new_invocations(app, task, 3)
    ids = [i.invocation_id for i in invs]
    # queue after registration: [id0, id1, id2]; drain and rebuild the scenario queue
    while app.broker.retrieve_invocation():
        pass
    q = [ids[0]] * copies + ([ids[1]] if two_ids else [])
    for x in q:
        app.broker.route_invocation(x)
    if blocking:
        app.orchestrator.waiting_for_results(ids[2], [ids[0]])
    return app, ids

def pollers(kind, copies, two_ids, blocking, nrun, first, slices):
    global LAST_DETAIL
    app, ids = poll_world(kind, copies, two_ids, blocking)
    orch = app.orchestrator
    ctxs = [runner_ctx(f"r{i+1}") for i in range(nrun)]
    actors = [coop.Actor(f"p{i}", orch.get_invocations_to_run__gen(1, ctxs[i])) for i in range(nrun)]
    res = coop.run_schedule(actors, first, slices)
    got = [[inv.invocation_id for inv in a.outs] for a in actors]
    errs = [outcome(a) for a in actors]
    recs = {x: orch.get_invocation_status_record(x) for x in ids[:2]}
    LAST_DETAIL = {"kind": kind, "copies": copies, "two_ids": two_ids, "blocking": blocking, "yielded": got, "errors": errs,
                   "records": {k: (v.status.value, v.runner_id) for k, v in recs.items()}, "schedule": res["schedule"]}
    coop.close_all_connections()
    if res["deadlock"] or any(e != "ok" for e in errs):
        return False
    flat = [x for g in got for x in g]
    if len(flat) != len(set(flat)):          # same invocation handed to two pollers (or twice)
        return False
    for i, g in enumerate(got):
        if len(g) > 1:
            return False
        for x in g:                               # what a poller received is PENDING under that poller
            if recs[x].status.value != "pending" or recs[x].runner_id != f"r{i+1}":
                return False
    # nothing claimable is left behind claimed-by-nobody: every id is PENDING under a poller or still available
    for x, r in recs.items():
        if r.status.value == "pending" and x not in flat:
            return False
    return True
'''

POLLF = r'''
install_poll(__DROP__)

def poll2___KIND_____FIRST_____BLK__(copies: int, two_ids: int, k1: int, k2: int) -> bool:
    """
    pre: 1 <= copies <= 3 and 0 <= two_ids <= 1
    pre: 0 <= k1 <= KMAX and 0 <= k2 <= K2MAX
    post: _
    """
    copies = pick(copies, 1, 3); two_ids = pick(two_ids, 0, 1)
    with NoTracing():
        return pollers(["mem", "sqlite"][__KIND__], copies, bool(two_ids), bool(__BLK__), 2, __FIRST__, __SLICES__)
'''

POLLT = r'''
def poll2_twin(copies: int, two_ids: int, k1: int) -> bool:
    """
    pre: 1 <= copies <= 3 and 0 <= two_ids <= 1
    pre: 0 <= k1 <= KMAX
    post: _
    """
    copies = pick(copies, 1, 3); two_ids = pick(two_ids, 0, 1)
    with NoTracing():
        pollers("sqlite", copies, bool(two_ids), False, 2, 0, [k1])
    return False
'''

BODYF = r'''
from pynenc.invocation.dist_invocation import DistributedInvocation
RUNS = []
def counted() -> int:
    RUNS.append(1)
    return 7

def install_body():
    mo.threading = coop.CoopThreading()
    coop.install_sqlite_standin()
    names = ["set_invocation_status", "set_invocation_result", "reroute_invocations"]
    ALLB = set(names + MEM_NAMES + ["run"])
    coop.yieldify(bo.BaseOrchestrator, names, all_names=ALLB)
    coop.yieldify(mo.MemOrchestrator, MEM_NAMES, all_names=ALLB)
    coop.yieldify(so.SQLiteOrchestrator, ["_atomic_status_transition"], all_names=ALLB, sql=True)
    coop.yieldify(DistributedInvocation, ["run"], all_names=ALLB)
install_body()

def body_once(kind, start, first, slices):
    # start: 0 = claimed by r1 (PENDING under r1), 1 = still REGISTERED (nobody claimed): two workers hold the same invocation object
    global LAST_DETAIL
    reset_uuid()
    RUNS.clear()
    app = mk_app(kind, app_id="c02b" + kind, cached_status_time=0.0)
    task = app.task(counted); warm_task(task)
    inv = new_invocations(app, task, 1)[0]
    iid = inv.invocation_id
    o = app.orchestrator
    c1, c2 = runner_ctx("r1"), runner_ctx("r2")
    if start == 0:
        o.set_invocation_status(iid, InvocationStatus.PENDING, c1)
    a = app.state_backend.get_invocation(iid)
    b = app.state_backend.get_invocation(iid)
    actors = [coop.Actor("legit", a.run__gen(c1)), coop.Actor("stale", b.run__gen(c2))]
    res = coop.run_schedule(actors, first, slices)
    coop.close_all_connections()
    errs = [repr(x.error) for x in actors if x.error is not None]
    rec = o.get_invocation_status_record(iid)
    LAST_DETAIL = {"kind": kind, "start": start, "body_runs": len(RUNS), "errors": errs, "final": (rec.status.value, rec.runner_id), "schedule": res["schedule"]}
    if errs or res["deadlock"]:
        return False
    # no kill / recovery happened: the body ran at most once, and exactly once when the legitimate owner held it
    if len(RUNS) > 1:
        return False
    if start == 0 and (len(RUNS) != 1 or rec.status.value != "success"):
        return False
    return True

def body___KIND__(start: int, first: int, k1: int, k2: int) -> bool:
    """
    pre: 0 <= start <= 1 and 0 <= first <= 1 and 0 <= k1 <= 60 and 0 <= k2 <= __BK2__
    post: _
    """
    start = pick(start, 0, 1)
    with NoTracing():
        return body_once(["mem", "sqlite"][__KIND__], start, first, [k1, k2] if __BK2__ else [k1])
'''

CLAIM = r'''
install(__NEVER__)

def claim2(kind_i: int, cur: int, first: int, k1: int, k2: int) -> bool:
    """
    pre: 0 <= kind_i <= __KINDMAX__ and 0 <= cur <= 2
    pre: 0 <= first <= 1 and 0 <= k1 <= KMAX and 0 <= k2 <= KMAX
    post: _
    """
    # two runners claim (-> PENDING) the same invocation from an available state: never both succeed
    kind_i = pick(kind_i, 0, 1); cur = pick(cur, 0, 2)
    avail = [STATUSES.index(s) for s in ("registered", "rerouted", "retry")]
    P = STATUSES.index("pending")
    with NoTracing():
        return race(["mem", "sqlite"][kind_i], avail[cur], 0, [(P, "r1"), (P, "r2")], first, [k1, k2])

def claim2_twin(kind_i: int, cur: int, first: int, k1: int, k2: int) -> bool:
    """
    pre: 0 <= kind_i <= __KINDMAX__ and 0 <= cur <= 2
    pre: 0 <= first <= 1 and 0 <= k1 <= KMAX and 0 <= k2 <= KMAX
    post: _
    """
    claim2(kind_i, cur, first, k1, k2)
    return False
'''


RECLAIM = r'''
install()

# release paths of the second actor (runner r2): claim, ..., release to an available status, claim again
_ix = STATUSES.index
PATHS = [["pending", "running", "retry", "pending"],
         ["pending", "rerouted", "pending"],
         ["pending", "running", "killed", "rerouted", "pending"],
         # from PENDING owned by r1 (paths 3, 4): recovery takes the invocation away from r1 and r2 claims it, while r1's own request is in flight
         ["pending_recovery", "rerouted", "pending"],
         ["pending_recovery", "rerouted", "pending", "running"]]

def _seq_gen(orch, iid, reqs, outs):
    for (new, rid) in reqs:
        try:
            yield from orch._atomic_status_transition__gen(iid, S[new], rid)
            outs.append("ok")
        except InvocationStatusTransitionError:
            outs.append("no")
        except InvocationStatusOwnershipError:
            outs.append("no")

def _merges(a, b):
    if not a or not b:
        yield list(a) + list(b); return
    for rest in _merges(a[1:], b):
        yield [a[0]] + rest
    for rest in _merges(a, b[1:]):
        yield [b[0]] + rest

def reclaim(kind, path, na, ra, first, slices):
    """actor A: one request (na by ra); actor B (r2): claims, releases through PATHS[path], claims again.
    Linearisable: outcomes and final record equal those of SOME merge of the two request sequences run serially on the spec."""
    global LAST_DETAIL
    app, iid = fresh(kind)
    orch = app.orchestrator
    if path >= 3:
        orch.set_invocation_status(iid, S[_ix("pending")], runner_ctx("r1"))
    rec0 = orch.get_invocation_status_record(iid)
    seq_a = [(na, RID[ra])]
    seq_b = [(_ix(x), "r2") for x in PATHS[path]]
    outs_a, outs_b = [], []
    actors = [coop.Actor("A", _seq_gen(orch, iid, seq_a, outs_a)), coop.Actor("B", _seq_gen(orch, iid, seq_b, outs_b))]
    res = coop.run_schedule(actors, first, slices)
    rec = orch.get_invocation_status_record(iid)
    coop.close_all_connections()
    got = (outs_a, outs_b, rec.status.value, rec.runner_id)
    errs = [repr(x.error) for x in actors if x.error is not None]
    why = None
    if res["deadlock"] or errs:
        why = "C02:reclaim:deadlock-or-error"
    else:
        ok = False
        for order in _merges([("A", r) for r in seq_a], [("B", r) for r in seq_b]):
            st, ow = rec0.status.value, rec0.runner_id
            oa, ob = [], []
            for who, (new, rid) in order:
                r = spec_step(st, ow, STATUSES[new], rid)
                (oa if who == "A" else ob).append("ok" if r[0] == "ok" else "no")
                if r[0] == "ok":
                    st, ow = r[1], r[2]
            if (oa, ob, st, ow) == got:
                ok = True; break
        if not ok:
            why = "C02:reclaim:not-linearisable:claim-release-claim"
    LAST_DETAIL = {"kind": kind, "path": PATHS[path], "A": (STATUSES[na], RID[ra]), "got": got, "errors": errs, "schedule": res["schedule"], "why": why}
    return why is None
'''

RECLAIMF = r'''
def reclaim___KIND_____PATH_____F__(na: int, ra: int, first: int, k1: int, k2: int) -> bool:
    """
    pre: NALO <= na <= NAHI and 0 <= ra <= 1 and __F__ <= first <= __F__ and 0 <= k1 <= RKMAX and 0 <= k2 <= RKMAX
    post: _
    """
    na = pick(na, NALO, NAHI); ra = pick(ra, 0, 1)
    with NoTracing():
        return reclaim(["mem", "sqlite"][__KIND__], __PATH__, na, ra, first, [k1, k2])
'''

RECLAIM_CANARY = r'''
# canary: the lock-table entry dropped at the end of every transition (a "leak fix") must be refuted
_orig_gen = mo.MemOrchestrator._atomic_status_transition__gen
def _popping(self, invocation_id, status, runner_id=None):
    try:
        r = yield from _orig_gen(self, invocation_id, status, runner_id)
        return r
    finally:
        self.locks.pop(invocation_id, None)
mo.MemOrchestrator._atomic_status_transition__gen = _popping
'''


def _key_from_replay(args, kwargs, replay_out):
    import re
    m = re.search(r"'why': '([^']+)'", replay_out or "")
    return m.group(1) if m else "C02:unclassified"


def run(ctx: Ctx) -> None:
    thorough = ctx.tier == "thorough"
    kmax = 26
    base = COMMON.replace("KMAX", str(kmax))
    # --- 1. two claims, both backends (verify) + reachability twin
    src = base + CLAIM.replace("__NEVER__", "False").replace("__KINDMAX__", "1").replace("KMAX", str(kmax))
    res = ctx.ch_batch("c02claim", src, [Cond("claim2", "confirm", 900), Cond("claim2_twin", "refute", 120)])
    # --- canary: a lock that never blocks must be refuted within the same bounds (mem only)
    src = base + CLAIM.replace("__NEVER__", "True").replace("__KINDMAX__", "0").replace("KMAX", str(kmax))
    ctx.ch_batch("c02canary", src, [Cond("claim2", "refute", 300)])
    # --- 2. two pollers over a queue with duplicate ids / blocking-priority entries
    pk = 45
    slices = "[k1, k2]" if thorough else "[k1]"
    k2 = pk if thorough else 0
    def pollf(drop, kind, first, blk):
        return (POLLF.replace("__DROP__", drop).replace("__KIND__", str(kind)).replace("__FIRST__", str(first))
                .replace("__BLK__", str(blk)).replace("__SLICES__", slices).replace("K2MAX", str(k2)).replace("KMAX", str(pk)))
    psrc = base + POLL
    conds = []
    inst = False
    for kind in (0, 1):
        for first in (0, 1):
            for blk in (0, 1):
                f = pollf("False", kind, first, blk)
                if inst:
                    f = f.replace("install_poll(False)\n", "")
                inst = True
                psrc += f
                conds.append(Cond(f"poll2_{kind}_{first}_{blk}", "confirm", 2400 if thorough else 600))
    psrc += POLLT.replace("KMAX", str(pk))
    conds.append(Cond("poll2_twin", "refute", 120))
    ctx.ch_batch("c02poll", psrc, conds)
    # canary: BEGIN IMMEDIATE dropped from the SQLite transition (AST mutation before yieldify; /repo untouched)
    csrc = base + POLL + pollf("True", 1, 0, 0)
    ctx.ch_batch("c02poll_canary", csrc, [Cond("poll2_1_0_0", "refute", 600)])
    # --- 3. the body never runs twice without a kill / recovery in between
    for kind, kname in ((0, "mem"), (1, "sqlite")):
        bsrc = base + BODYF.replace("__KIND__", str(kind)).replace("__BK2__", "60" if thorough else "0")
        ctx.ch_batch(f"c02body_{kname}", bsrc, [Cond(f"body_{kind}", "confirm", 1500)])
    # --- 4. claim - release - claim by one runner while another runner's request is in flight (stale lock references, stale reads)
    rk = 90
    # quick: A's request is a claim (-> PENDING) by r1 or r2; thorough: any of the 14 statuses
    P = 4
    nalo, nahi = (0, 13) if thorough else (P, P)
    rsrc = base + RECLAIM
    rconds = []
    R = 6   # running
    for kind in (0, 1):
        for path in range(5):
            lo, hi = (nalo, nahi) if path < 3 or thorough else (R, R)       # quick, taken-away paths: the owner's in-flight request is its start (-> RUNNING)
            for fst in (0, 1):
                rsrc += RECLAIMF.replace("__KIND__", str(kind)).replace("__PATH__", str(path)).replace("__F__", str(fst)).replace("RKMAX", str(rk)).replace("NALO", str(lo)).replace("NAHI", str(hi))
                rconds.append(Cond(f"reclaim_{kind}_{path}_{fst}", "confirm", 2400, keyfn=_key_from_replay))
    ctx.ch_batch("c02reclaim", rsrc, rconds)
    csrc = base + RECLAIM + RECLAIM_CANARY + RECLAIMF.replace("__KIND__", "0").replace("__PATH__", "0").replace("__F__", "0").replace("RKMAX", str(rk)).replace("NALO", str(P)).replace("NAHI", str(P))
    ctx.ch_batch("c02reclaim_canary", csrc, [Cond("reclaim_0_0_0", "refute", 900)])
    ctx.bounds["reclaim"] = (f"actor A: {'any one request (14 statuses' if thorough else 'a claim (-> PENDING'}, by r1 or r2); actor B (r2): claim, release through RETRY / REROUTED / KILLED+REROUTED, claim again - or, from PENDING owned by r1, recovery + re-claim by r2 against r1's in-flight start; "
                             f"first actor, 2 preemptions with slices 0..{rk}; both backends; oracle = linearisability against the status table")
    ctx.bounds["body"] = "two workers holding the same invocation object (one the legitimate owner, one stale) run the real DistributedInvocation.run twins, 1 preemption (thorough: 2) with slices 0..60, both backends: the body executes at most once"
    ctx.bounds["pollers"] = (f"2 pollers running the real get_invocations_to_run(1) twins; queue holds 1-3 copies of one id, optionally a second id, "
                             f"optionally the id also offered through the blocking list; {'2 preemptions' if thorough else '1 preemption'} with slice 0..{pk}")
    ctx.functions_encoded += [
        "BaseOrchestrator.get_invocations_to_run/get_blocking_invocations_to_run/get_additional_invocations_to_run/reroute_invocations/set_invocation_status",
        "MemBroker.retrieve_invocation", "SQLiteBroker.retrieve_invocation",
        "MemOrchestrator._atomic_status_transition", "MemOrchestrator._get_invocation_lock",
        "MemOrchestrator._interanl_atomic_status_transition", "SQLiteOrchestrator._atomic_status_transition",
    ]
    ctx.bounds["claims"] = f"2 actors, 2 preemptions with slice lengths 0..{kmax} (>= yield points of one transition), start in each available status, both backends"
    ctx.stubs += ["threading.Lock/RLock -> CoopLock (cooperative)", "sqlite connections opened with timeout=0, statement-level yields",
                  "history threads synchronous", "counter clock"]
    ctx.assumptions += ["preemption granularity = one source line (in-memory) / one SQL statement (SQLite); preemption inside a line is not modelled"]
