"""C12 — at most one runner authorised at any instant (DESIGN 3/C12).

Engine SMT (pysym): the current source of calculate_time_slot / is_runner_in_time_slot /
can_run_atomic_service is translated to z3 terms, in exact real arithmetic and in IEEE-754 double.
Symbolic: cycle length I (minutes), margin m (minutes), the instant (through its residue r = t mod cycle).
Concrete per query: runner count n and the positions.
"""

from __future__ import annotations

import multiprocessing as mp
import struct
import time
from fractions import Fraction

from engine.core import Ctx

NMAX_REAL_Q, NMAX_REAL_T = 8, 16
NMAX_FP_Q, NMAX_FP_T = 4, 8
FP_TIMEOUT_Q, FP_TIMEOUT_T = 100, 300


def _runners(n):
    from datetime import UTC, datetime, timedelta
    from pynenc.orchestrator.atomic_service import ActiveRunnerInfo
    t0 = datetime(2024, 1, 1, tzinfo=UTC)
    return [ActiveRunnerInfo(f"r{i}", t0 + timedelta(seconds=i), t0) for i in range(n)]


def _fp_to_float(model, v):
    import z3
    bv = model.eval(z3.fpToIEEEBV(v), model_completion=True)
    return struct.unpack(">d", int(bv.as_long()).to_bytes(8, "big"))[0]


def _real_to_frac(model, v):
    val = model.eval(v, model_completion=True)
    return Fraction(val.numerator_as_long(), val.denominator_as_long())


def _query(job):
    """Runs in a worker process. job = (domain, kind, n, i, j, timeout)."""
    import z3
    from engine import pysym
    from pynenc.orchestrator import atomic_service as A

    domain, kind, n, i, j, timeout = job
    t_start = time.time()
    out = {"job": job, "verdict": "unknown", "model": None, "seconds": 0.0, "functions": [], "error": None}
    try:
        it = pysym.Interp(domain)
        I, m, t = it.var("I"), it.var("m"), it.var("t")
        runners = _runners(n)
        cons = []
        if domain == "fp64":
            for v in (I, m, t):
                cons += [z3.Not(z3.fpIsNaN(v)), z3.Not(z3.fpIsInf(v))]
            cons += [z3.fpGEQ(I, it.num(0.001)), z3.fpLEQ(I, it.num(1e5)),
                     z3.fpGEQ(m, it.num(0.0)), z3.fpLEQ(m, it.num(1e5)),
                     z3.fpGEQ(t, it.num(0.0)), z3.fpLEQ(t, it.num(4e9))]
        else:
            cons += [I > 0, m >= 0, t >= 0]
        goal = None
        if kind == "R1":  # two positions authorised at the same instant
            a = it.call(A.can_run_atomic_service, f"r{i}", runners, t, I, m)
            b = it.call(A.can_run_atomic_service, f"r{j}", runners, t, I, m)
            goal = z3.And(a, b)
        elif kind == "R3":  # window of position i is empty or misses [0, cycle)
            s, e = it.call(A.calculate_time_slot, i, n, I, m, runners)
            cyc = it.arith(pysym.ast.Mult(), I, 60)
            nonempty = z3.And(it.cmp(pysym.ast.Lt(), s, e), it.cmp(pysym.ast.LtE(), 0, s), it.cmp(pysym.ast.Lt(), s, cyc))
            goal = z3.Not(nonempty)
        elif kind == "R2":  # margin fits in a slot but the gap to the next window is smaller (real only)
            s0, e0 = it.call(A.calculate_time_slot, i, n, I, m, runners)
            cyc = I * 60
            slot = cyc / n
            if j == (i + 1) and j < n:
                s1, _ = it.call(A.calculate_time_slot, j, n, I, m, runners)
                gap = s1 - e0
            else:  # cyclic: last -> first of the next cycle
                sf, _ = it.call(A.calculate_time_slot, 0, n, I, m, runners)
                gap = cyc - e0 + sf
            goal = z3.And(m * 60 < slot, gap < m * 60)
        elif kind == "R5":  # authorised iff residue in the DOCUMENTED window (real only)
            a = it.call(A.can_run_atomic_service, f"r{i}", runners, t, I, m)
            cyc = I * 60
            slot = cyc / n
            start = i * slot
            end = z3.If(m * 60 < slot, start + slot - m * 60, start + slot / 2)
            r = it.call(A.is_runner_in_time_slot, t, I, -1.0, 1.0)  # forces the memoised residue variable
            res = list(it._mod_memo.values())[0]
            spec = z3.And(start <= res, res < end)
            goal = a != spec
        elif kind == "WIT":  # reachability witness: position i IS authorised at some instant
            goal = it.call(A.can_run_atomic_service, f"r{i}", runners, t, I, m)
        else:
            raise ValueError(kind)
        verdict, model, secs, solver = pysym.solve(cons + it.side + [goal], timeout)
        out["verdict"], out["seconds"] = verdict, secs
        out["functions"] = it.functions_seen
        if verdict == "sat":
            if domain == "fp64":
                vals = {"I": _fp_to_float(model, I), "m": _fp_to_float(model, m)}
                res = list(it._mod_memo.values())
                vals["t"] = _fp_to_float(model, res[0]) if res else _fp_to_float(model, t)
            else:
                vals = {"I": str(_real_to_frac(model, I)), "m": str(_real_to_frac(model, m))}
                res = list(it._mod_memo.values())
                vals["t"] = str(_real_to_frac(model, res[0] if res else t))
            out["model"] = vals
        if job[0] == "real" and kind == "R1" and n <= 3:
            out["smt2"] = solver.to_smt2()
    except pysym.Unsupported as e:
        out["error"] = f"Unsupported: {e}"
    except Exception as e:  # noqa: BLE001
        import traceback
        out["error"] = traceback.format_exc()[-800:]
    out["wall"] = time.time() - t_start
    return out


def _replay_r1(n, i, j, vals, exact: bool):
    """Concrete replay on the REAL functions: both runners authorised at the same instant?"""
    from pynenc.orchestrator.atomic_service import can_run_atomic_service
    conv = (lambda x: Fraction(x)) if exact else float
    I, m, t = conv(vals["I"]), conv(vals["m"]), conv(vals["t"])
    runners = _runners(n)
    answers = [bool(can_run_atomic_service(f"r{k}", runners, t, I, m)) for k in range(n)]
    return answers[i] and answers[j], answers


POS = r'''
from datetime import UTC, datetime, timedelta
from engine.hsupport import *
from pynenc.orchestrator.atomic_service import ActiveRunnerInfo, calculate_runner_position, can_run_atomic_service
LAST_DETAIL = None
T0 = datetime(2024, 1, 1, tzinfo=UTC)

def positions(n, offs, perm):
    """n runners with distinct ids and creation times T0 + offs[i] seconds (ties allowed), listed in the order a backend may return them"""
    global LAST_DETAIL
    order = [[0, 1, 2, 3], [1, 0, 3, 2], [3, 2, 1, 0], [2, 3, 0, 1]][perm][:4]
    order = [i for i in order if i < n]
    runners = [ActiveRunnerInfo(f"runner-{i}", T0 + timedelta(seconds=offs[i]), T0) for i in order]
    pos = [calculate_runner_position(r.runner_id, runners) for r in runners]
    LAST_DETAIL = {"creation_offsets": [offs[i] for i in order], "positions": pos}
    if sorted(p for p in pos if p is not None) != list(range(n)) or len(pos) != n:
        LAST_DETAIL["why"] = "C12:positions-are-not-a-permutation-of-the-slots"
        return False
    if calculate_runner_position("nobody", runners) is not None:
        LAST_DETAIL["why"] = "C12:unknown-runner-gets-a-position"
        return False
    # end to end on a grid of instants of one cycle: never two authorised (6 min cycle, 1 min margin)
    for k in range(0, 360, 7):
        now = 1_700_000_000.0 - (1_700_000_000.0 % 360.0) + k + 0.5
        auth = [r.runner_id for r in runners if can_run_atomic_service(r.runner_id, runners, now, 6.0, 1.0)]
        if len(auth) > 1:
            LAST_DETAIL["why"] = "C12:two-runners-authorised-at-one-instant"; LAST_DETAIL["instant"] = now; LAST_DETAIL["authorised"] = auth
            return False
    return True

def runner_positions(n: int, o0: int, o1: int, o2: int, o3: int, perm: int) -> bool:
    """
    pre: 2 <= n <= 4 and 0 <= o0 <= 2 and 0 <= o1 <= 2 and 0 <= o2 <= 2 and 0 <= o3 <= 2 and 0 <= perm <= 3
    post: _
    """
    n = pick(n, 2, 4); offs = [pick(o0, 0, 2), pick(o1, 0, 2), pick(o2, 0, 2), pick(o3, 0, 2)]; perm = pick(perm, 0, 3)
    with NoTracing():
        return positions(n, offs, perm)

def positions_twin(n: int, o0: int, o1: int) -> bool:
    """
    pre: 2 <= n <= 4 and 0 <= o0 <= 2 and 0 <= o1 <= 2
    post: _
    """
    runner_positions(n, o0, o1, 0, 0, 0)
    return False

def positions_canary(o0: int, o1: int, o2: int) -> bool:
    """
    pre: 0 <= o0 <= 2 and 0 <= o1 <= 2 and 0 <= o2 <= 2
    post: _
    """
    # canary: a position defined as "number of runners created strictly earlier" must be refuted (ties share a slot)
    import pynenc.orchestrator.atomic_service as A
    orig = A.calculate_runner_position
    def by_rank(runner_id, active_runners):
        me = next((r for r in active_runners if r.runner_id == runner_id), None)
        return None if me is None else sum(1 for r in active_runners if r.creation_time < me.creation_time)
    A.calculate_runner_position = by_rank
    g = globals()
    old = g["calculate_runner_position"]; g["calculate_runner_position"] = by_rank
    try:
        offs = [pick(o0, 0, 2), pick(o1, 0, 2), pick(o2, 0, 2), 0]
        with NoTracing():
            return positions(3, offs, 0)
    finally:
        A.calculate_runner_position = orig; g["calculate_runner_position"] = old
'''


def _pos_key(args, kwargs, replay_out):
    import re
    m = re.search(r"'why': '([^']+)'", replay_out or "")
    return m.group(1) if m else "C12:positions:unclassified"


def run(ctx: Ctx) -> None:
    thorough = ctx.tier == "thorough"
    nreal = NMAX_REAL_T if thorough else NMAX_REAL_Q
    nfp = NMAX_FP_T if thorough else NMAX_FP_Q
    fpt = FP_TIMEOUT_T if thorough else FP_TIMEOUT_Q
    jobs = []
    for n in range(2, nreal + 1):
        for i in range(n):
            for j in range(i + 1, n):
                jobs.append(("real", "R1", n, i, j, 60))
            jobs.append(("real", "R3", n, i, 0, 60))
            jobs.append(("real", "R2", n, i, i + 1, 60))
            jobs.append(("real", "R5", n, i, 0, 60))
            jobs.append(("real", "WIT", n, i, 0, 60))
    fp_jobs = []
    for n in range(2, nfp + 1):
        for i in range(n):
            for j in range(i + 1, n):
                fp_jobs.append(("fp64", "R1", n, i, j, fpt))
            fp_jobs.append(("fp64", "R3", n, i, 0, fpt))
    # adjacent pairs first (they are the hard / interesting ones)
    fp_jobs.sort(key=lambda jb: (jb[1] != "R1", jb[4] - jb[3] if jb[1] == "R1" else 0, jb[2]))
    t0 = time.time()
    with mp.Pool(ctx.jobs) as pool:
        results = pool.map(_query, fp_jobs + jobs, chunksize=1)
    funcs = set()
    n_sat_wit = 0
    cvc5_done = 0
    for r in results:
        domain, kind, n, i, j, _ = r["job"]
        name = f"{domain}.{kind}.n{n}.i{i}" + (f".j{j}" if kind in ("R1", "R2") else "")
        funcs.update(r["functions"])
        ctx.solver_time += r["seconds"]
        ctx.evaluations += 1
        if r["error"]:
            ctx.oblige(name, None, r["error"])
            continue
        if kind == "WIT":
            if r["verdict"] == "sat":
                n_sat_wit += 1
                ctx.oblige(name, True, f"witness sat {r['seconds']:.2f}s {r['model']}", kind="canary")
                ctx.nontrivial.add(name)
                if len(ctx.samples) < 3:
                    ctx.samples.append({"witness": name, "model": r["model"]})
            else:
                ctx.oblige(name, None, f"reachability witness {r['verdict']}", kind="canary")
                ctx.errors.append(f"{name}: reachability witness not sat ({r['verdict']}): vacuous encoding")
            continue
        if r["verdict"] == "unsat":
            ctx.oblige(name, True, f"unsat {r['seconds']:.2f}s")
            ctx.nontrivial.add(name)
        elif r["verdict"] == "unknown":
            # fp pairs outside the quick set may time out: inconclusive, reported, not success
            ctx.oblige(name, None, f"unknown after {r['seconds']:.0f}s")
        else:
            vals = r["model"]
            if kind == "R1":
                ok, answers = _replay_r1(n, i, j, vals, exact=(domain == "real"))
                if not ok:
                    ctx.oblige(name, None, f"sat model does not replay on the real function: {vals} -> {answers}")
                    ctx.errors.append(f"{name}: counterexample did not reproduce: {vals} -> {answers}")
                    continue
                key = f"C12:{domain}:overlap:n{n}:pos{i}-{j}" if domain == "fp64" else f"C12:real:overlap:n{n}:pos{i}-{j}"
                if domain == "fp64" and float(vals["m"]) * 60 < 1e-6:
                    key = "C12:fp64:adjacent-slots-overlap-by-rounding:margin~0"
                script = (
                    "from datetime import datetime, UTC, timedelta\n"
                    "from fractions import Fraction\n"
                    "from pynenc.orchestrator.atomic_service import ActiveRunnerInfo, can_run_atomic_service\n"
                    f"n={n}; conv={'Fraction' if domain == 'real' else 'float'}\n"
                    f"I=conv({vals['I']!r}); m=conv({vals['m']!r}); t=conv({vals['t']!r})\n"
                    "t0=datetime(2024,1,1,tzinfo=UTC)\n"
                    "rs=[ActiveRunnerInfo(f'r{i}', t0+timedelta(seconds=i), t0) for i in range(n)]\n"
                    "ans=[can_run_atomic_service(f'r{k}', rs, t, I, m) for k in range(n)]\n"
                    "print('authorised:', ans)\n"
                    "print('REPLAY: REPRODUCED' if sum(ans) > 1 else 'REPLAY: HOLDS')\n")
                ctx.oblige(name, False, f"two runners authorised at once: {vals} -> {answers}")
                ctx.report_violation(key, f"runners {i} and {j} of {n} both authorised at t={vals['t']} (I={vals['I']} min, margin={vals['m']} min, {domain})",
                                     {"kind": "script", "script": script, "model": vals})
            else:
                script = _window_script(kind, domain, n, i, vals)
                import subprocess, sys as _sys
                cp = subprocess.run([_sys.executable, "-c", script], capture_output=True, text=True)
                if "REPLAY: REPRODUCED" not in cp.stdout:
                    ctx.oblige(name, None, f"{kind} model does not replay: {vals} :: {cp.stdout[-300:]} {cp.stderr[-300:]}")
                    ctx.errors.append(f"{name}: counterexample did not reproduce on the real function: {vals}")
                    continue
                ctx.oblige(name, False, f"{kind} violated: {vals}")
                ctx.report_violation(f"C12:{domain}:{kind}:n{n}:pos{i}", f"{kind} fails for position {i} of {n}: {vals}",
                                     {"kind": "script", "script": script, "model": vals})
        if r.get("smt2") and cvc5_done < 3:
            from engine import pysym
            cv = pysym.cvc5_check(r["smt2"], 30)
            cvc5_done += 1
            ctx.extra.setdefault("cvc5_crosscheck", []).append({"query": name, "z3": r["verdict"], "cvc5": cv})
            if cv in ("sat", "unsat") and cv != r["verdict"]:
                ctx.errors.append(f"{name}: z3 says {r['verdict']} but cvc5 says {cv}")
    # R4 and translator validation (Serval-style): push concrete inputs through real function and encoding
    from pynenc.orchestrator.atomic_service import can_run_atomic_service
    ok_single = all(can_run_atomic_service("r0", _runners(1), float(t), 5.0, 1.0) for t in (0, 1, 299.9, 1e9))
    ctx.oblige("R4.single-runner-always", ok_single, "single active runner: concrete path of the real function (no symbolic branch)")
    ctx.traces_validated = _validate_translation(ctx)
    # positions: the slot arithmetic above is per position; the runner -> position map must be one-to-one for ANY list
    from engine.core import Cond
    ctx.ch_batch("c12pos", POS, [Cond("runner_positions", "confirm", 600, keyfn=_pos_key), Cond("positions_twin", "refute", 60),
                                  Cond("positions_canary", "refute", 120)])
    funcs.add("calculate_runner_position (CrossHair: lists of 2-4 runners, creation times with ties, 4 list orders) + can_run_atomic_service end to end on an instant grid")
    ctx.functions_encoded += sorted(funcs)
    ctx.bounds = {
        "real": f"n = 2..{nreal}, all position pairs; I > 0, margin >= 0, instant >= 0 unbounded reals",
        "fp64": f"n = 2..{nfp}, all position pairs; 0.001 <= I <= 1e5 min, 0 <= margin <= 1e5 min, round-nearest-even, {fpt}s cap per query",
        "positions": "2-4 runners with distinct ids, creation-time offsets 0..2 s each (ties included), 4 list orders: positions are a permutation of 0..n-1; 52 instants of a 6-minute cycle end to end",
        "obligations": "R1 disjoint windows, R2 separation >= margin when margin < slot (real), R3 non-empty window inside the cycle, R4 single runner, R5 authorised iff residue in documented window (real)",
    }
    ctx.stubs = ["t % cycle abstracted by a fresh residue r, 0 <= r < cycle (exact image of Python's float % for positive operands)",
                 "runner list without execution history (validate_execution_time only logs)"]
    ctx.assumptions = ["R2 and R5 are claimed in exact arithmetic only (one rounding of slack in doubles)",
                       "cycle lengths outside [0.001, 1e5] minutes and NaN/inf are outside the FP claim"]
    ctx.extra["wall_queries_s"] = round(time.time() - t0, 1)
    ctx.extra["reachability_witnesses_sat"] = n_sat_wit


def _window_script(kind, domain, n, i, vals):
    """Replay of R2/R3/R5 models on the real functions (Fractions = exact arithmetic for the real domain)."""
    return (
        "from datetime import datetime, UTC, timedelta\n"
        "from fractions import Fraction\n"
        "from pynenc.orchestrator.atomic_service import ActiveRunnerInfo, can_run_atomic_service, calculate_time_slot\n"
        f"n={n}; i={i}; kind={kind!r}; conv={'Fraction' if domain == 'real' else 'float'}\n"
        f"I=conv({vals['I']!r}); m=conv({vals['m']!r}); t=conv({vals['t']!r})\n"
        "t0=datetime(2024,1,1,tzinfo=UTC)\n"
        "rs=[ActiveRunnerInfo(f'r{k}', t0+timedelta(seconds=k), t0) for k in range(n)]\n"
        "cyc=I*60; slot=cyc/n\n"
        "s,e=calculate_time_slot(i,n,I,m,rs)\n"
        "bad=False\n"
        "if kind=='R3': bad = not (s < e and 0 <= s and s < cyc)\n"
        "if kind=='R2':\n"
        "    nxt = calculate_time_slot(i+1,n,I,m,rs)[0] if i+1<n else cyc + calculate_time_slot(0,n,I,m,rs)[0]\n"
        "    bad = (m*60 < slot) and (nxt - e < m*60)\n"
        "if kind=='R5':\n"
        "    start=i*slot; end = start+slot-m*60 if m*60 < slot else start+slot/2\n"
        "    bad = bool(can_run_atomic_service(f'r{i}', rs, t, I, m)) != (start <= t % cyc < end)\n"
        "print('window', s, e, 'slot', slot, 'cycle', cyc)\n"
        "print('REPLAY: REPRODUCED' if bad else 'REPLAY: HOLDS')\n")


def _validate_translation(ctx: Ctx) -> int:
    """Pin every variable to concrete values and compare encoding vs real function."""
    import itertools
    import z3
    from engine import pysym
    from pynenc.orchestrator import atomic_service as A
    count = 0
    for n, I, m, t in itertools.product((2, 3, 5), (0.5, 5.0, 7.3), (0.0, 1.0, 3.0), (0.0, 59.9, 100.0, 149.99, 150.0, 299.0)):
        runners = _runners(n)
        for i in range(n):
            real = bool(A.can_run_atomic_service(f"r{i}", runners, t, I, m))
            it = pysym.Interp("fp64")
            Iv, mv, tv = it.var("I"), it.var("m"), it.var("t")
            enc = it.call(A.can_run_atomic_service, f"r{i}", runners, tv, Iv, mv)
            res = list(it._mod_memo.values())
            sub = [(Iv, it.num(I)), (mv, it.num(m)), (tv, it.num(t))]
            if res:
                sub.append((res[0], it.num(t % (I * 60))))
            folded = z3.simplify(z3.substitute(enc, *sub)) if pysym.is_sym(enc) else enc
            got = bool(folded) if not pysym.is_sym(folded) else (True if z3.is_true(folded) else False if z3.is_false(folded) else None)
            if got is None or got != real:
                ctx.errors.append(f"translation validation mismatch at n={n} i={i} I={I} m={m} t={t}: real={real} encoding={folded}")
            count += 1
    return count
