"""C19 part 2 (SCHED) — retry accounting when a second worker picks the re-queued invocation up at once.

Two runner actors: r1 holds the (already claimed) invocation of a task whose body always raises a retriable exception and runs
the real DistributedInvocation.run twin (-> set_invocation_retry twin: status RETRY, retry counter, re-queue); both runners then
poll (real get_invocations_to_run twin) and run whatever they get, until the invocation is final. Symbolic: first actor, two
preemption points. Oracle (same as sync mode, where the body runs max_retries+1 times and then fails): the body is executed
exactly max_retries+1 times and the invocation ends FAILED with the retriable exception.
Scenarios: a top-level invocation (reachable only through the queue) and an awaited child (also reachable through the blocking list).
"""

import re

from engine.core import Cond, Ctx

SRC = r'''
from engine.hsupport import *
from engine import standins, coop
from pynenc.invocation.status import InvocationStatus as St
from pynenc.invocation.dist_invocation import DistributedInvocation
from pynenc.exceptions import RetryError
import pynenc.orchestrator.mem_orchestrator as mo, pynenc.orchestrator.sqlite_orchestrator as so
import pynenc.orchestrator.base_orchestrator as bo
import pynenc.broker.mem_broker as mb, pynenc.broker.sqlite_broker as sb
standins.install_sync_history()
standins.patch_clock(standins.CounterClock(1_700_000_000.0), mo, so)
LAST_DETAIL = None
RUNS = []

def always_retry(x: int = 0) -> int:
    RUNS.append(x)
    raise RetryError("again", len(RUNS))

def parent(x: int = 0) -> int:
    return x

BASE = ["get_invocations_to_run", "get_blocking_invocations_to_run", "get_additional_invocations_to_run", "reroute_invocations", "set_invocation_status",
        "set_invocation_retry", "set_invocation_exception"]
MEM_NAMES = ["_atomic_status_transition", "_get_invocation_lock", "_interanl_atomic_status_transition"]
ALL = set(BASE + MEM_NAMES + ["retrieve_invocation", "route_invocation", "send_message", "run"])
GEN = {"get_invocations_to_run", "get_blocking_invocations_to_run", "get_additional_invocations_to_run"}
mo.threading = coop.CoopThreading()
coop.install_sqlite_standin()
coop.yieldify(bo.BaseOrchestrator, BASE, all_names=ALL, gen_names=GEN)
coop.yieldify(mo.MemOrchestrator, MEM_NAMES, all_names=ALL, gen_names=GEN)
coop.yieldify(mb.MemBroker, ["retrieve_invocation", "route_invocation"], all_names=ALL, gen_names=GEN)
coop.yieldify(so.SQLiteOrchestrator, ["_atomic_status_transition"], all_names=ALL, gen_names=GEN, sql=True)
coop.yieldify(sb.SQLiteBroker, ["retrieve_invocation", "route_invocation", "send_message"], all_names=ALL, gen_names=GEN, sql=True)
coop.yieldify(DistributedInvocation, ["run"], all_names=ALL, gen_names=GEN)

def retry_race(kind, awaited, max_retries, first, slices):
    global LAST_DETAIL
    reset_uuid()
    RUNS.clear()
    app = mk_app(kind, app_id="c19s" + kind, cached_status_time=0.0)
    task = app.task(max_retries=max_retries)(always_retry); warm_task(task)
    ptask = app.task(parent); warm_task(ptask)
    inv = task(0)
    iid = inv.invocation_id
    o = app.orchestrator
    ctx1, ctx2 = runner_ctx("r1"), runner_ctx("r2")
    while app.broker.retrieve_invocation():
        pass
    if awaited:
        p = ptask(1)
        while app.broker.retrieve_invocation():
            pass
        for st in (St.PENDING, St.RUNNING):
            o.set_invocation_status(p.invocation_id, st, ctx2)
        o.waiting_for_results(p.invocation_id, [iid])          # the parent (running elsewhere) waits for this invocation
    o.set_invocation_status(iid, St.PENDING, ctx1)
    held = app.state_backend.get_invocation(iid)
    def loop(ctx, start_with=None):
        if start_with is not None:
            try:
                yield from start_with.run__gen(ctx)
            except RetryError:
                pass
        for _ in range(max_retries + 3):
            if o.get_invocation_status(iid).is_final():
                return
            got = []
            for ev in o.get_invocations_to_run__gen(1, ctx):
                if ev[0] == "O":
                    got.append(ev[1])
                else:
                    yield ev
            for g in got:
                try:
                    yield from g.run__gen(ctx)
                except RetryError:
                    pass
            yield ("L", -1)
    actors = [coop.Actor("r1", loop(ctx1, held)), coop.Actor("r2", loop(ctx2))]
    res = coop.run_schedule(actors, first, slices, max_total=20000)
    coop.close_all_connections()
    st = o.get_invocation_status(iid)
    errs = [a.name + ":" + repr(a.error)[:100] for a in actors if a.error is not None]
    why = None
    if errs or res["deadlock"]:
        why = "C19:retry-race:actor-raised-or-deadlock"
    elif not st.is_final():
        why = "C19:retry-race:never-final:" + st.value
    elif len(RUNS) != max_retries + 1:
        why = f"C19:retry-race:body-executed-{'more' if len(RUNS) > max_retries + 1 else 'fewer'}-than-max_retries+1:{'awaited-child' if awaited else 'top-level'}"
    elif st != St.FAILED:
        why = "C19:retry-race:not-FAILED:" + st.value
    LAST_DETAIL = {"kind": kind, "awaited": awaited, "max_retries": max_retries, "executions": len(RUNS), "retries_recorded": o.get_invocation_retries(iid),
                   "final": st.value, "errors": errs, "schedule": res["schedule"], "why": why}
    return why is None

def retry___KIND_____AW_____LO__(max_retries: int, first: int, k1: int, k2: int) -> bool:
    """
    pre: 1 <= max_retries <= MRMAX and 0 <= first <= FIRSTMAX and __LO__ <= k1 <= __HI__ and 0 <= k2 <= K2MAX
    post: _
    """
    max_retries = pick(max_retries, 1, MRMAX)
    kk2 = K2STEP * k2          # (symbolic arithmetic under tracing)
    with NoTracing():
        return retry_race(["mem", "sqlite"][__KIND__], bool(__AW__), max_retries, first, [k1, kk2])
'''

EXTRA = r'''
def retry_twin(k1: int) -> bool:
    """
    pre: 0 <= k1 <= KMAX
    post: _
    """
    with NoTracing():
        retry_race("mem", False, 1, 0, [k1])
    return False

def canary_count_after_requeue(first: int, k1: int, k2: int) -> bool:
    """
    pre: 0 <= first <= 0 and 0 <= k1 <= KMAX and 0 <= k2 <= K2MAX
    post: _
    """
    # canary: a retry that is re-queued BEFORE it is counted must be refuted (the other worker reads a stale count)
    def bad_gen(self, invocation_id, exception, runner_ctx):
        yield ("L", 1)
        yield from self.app.orchestrator.set_invocation_status__gen(invocation_id, St.RETRY, runner_ctx)
        yield ("L", 2)
        yield from coop._coop_call(self.app.broker, "route_invocation", invocation_id)
        yield ("L", 3)
        self.app.orchestrator.increment_invocation_retries(invocation_id)
    orig = bo.BaseOrchestrator.set_invocation_retry__gen
    bo.BaseOrchestrator.set_invocation_retry__gen = bad_gen
    kk2 = K2STEP * k2
    try:
        with NoTracing():
            return retry_race("mem", False, 1, first, [k1, kk2])
    finally:
        bo.BaseOrchestrator.set_invocation_retry__gen = orig
'''


def _key_from_replay(args, kwargs, replay_out):
    m = re.search(r"'why': '([^']+)'", replay_out or "")
    return m.group(1) if m else "C19:retry-race:unclassified"


def run(ctx: Ctx) -> None:
    thorough = ctx.tier == "thorough"
    kmax = 80 if thorough else 55   # the holder reaches the re-queue of its first retry after ~47 steps
    mrmax = 2 if thorough else 1
    # the second runner needs a whole poll + start + body + retry bookkeeping inside its slice (about 80 steps); its slice length is
    # explored in units of k2step steps (the holder's preemption point k1 is exact)
    k2step = 2 if thorough else 5
    k2max = (130 if thorough else 100) // k2step
    head, f = SRC.split("def retry___KIND_____AW_____LO__")
    f = "def retry___KIND_____AW_____LO__" + f
    src, conds = head, []
    step = 7 if not thorough else 8
    for kind in (0, 1):
        for aw in (0, 1):
            for lo in range(0, kmax + 1, step):
                src += f.replace("__KIND__", str(kind)).replace("__AW__", str(aw)).replace("__LO__", str(lo)).replace("__HI__", str(min(kmax, lo + step - 1)))
                conds.append(Cond(f"retry_{kind}_{aw}_{lo}", "confirm", 2400, keyfn=_key_from_replay))
    src += EXTRA
    conds += [Cond("retry_twin", "refute", 60), Cond("canary_count_after_requeue", "refute", 600)]
    ctx.ch_batch("c19sched", src.replace("K2STEP", str(k2step)).replace("K2MAX", str(k2max)).replace("KMAX", str(kmax)).replace("MRMAX", str(mrmax)).replace("FIRSTMAX", "1" if thorough else "0"), conds)
    ctx.functions_encoded += ["DistributedInvocation.run (retry branch) + BaseOrchestrator.set_invocation_retry/set_invocation_exception/get_invocations_to_run (twins), two runners"]
    ctx.bounds["retry race"] = (f"a body that always raises a retriable exception, max_retries 1..{mrmax}; top-level invocation and awaited child (offered through the blocking list); "
                                f"2 runner actors, {'either actor first' if thorough else 'r1 (the holder) first'}, 2 preemptions: holder slice 0..{kmax} (exact), other runner's slice 0..{k2max * k2step} in units of {k2step}; both backends")
