"""C18 part 2 (SCHED) — the same task body running for two DIFFERENT workflows at the same time in one process.

Two actors run the real DistributedInvocation.run twins of two top-level invocations (two workflows) of one task whose
cooperative body launches the identical sub-call through the real DeterministicExecutor.execute_task twin (line-level
yields between "no record", the launch and the record write). Symbolic: first actor, two preemption points. Afterwards
each workflow's body is executed again alone (replay). Oracle: each workflow launched its own sub-invocation (distinct
ids, each belonging to its own workflow), recorded it under its own workflow, the replay gets the recorded one back,
and exactly one sub-invocation exists per workflow.
"""

import re

from engine.core import Cond, Ctx

SRC = r'''
from engine.hsupport import *
from engine import standins, coop
from pynenc import context as pctx
from pynenc.invocation.status import InvocationStatus as St
from pynenc.invocation.dist_invocation import DistributedInvocation
from pynenc.exceptions import RetryError
import pynenc.workflow.workflow_deterministic as wd
import pynenc.orchestrator.mem_orchestrator as mo, pynenc.orchestrator.sqlite_orchestrator as so
standins.install_sync_history()
standins.patch_clock(standins.CounterClock(1_600_000_000.0), mo, so)
LAST_DETAIL = None
APPX = {}
GOT = []

def child(x: int) -> int:
    return x

MODE = [0]
REF = {}
def main_body(tag: int):
    t = APPX["main"]
    if MODE[0] == 0:
        inv = yield from coop._coop_call(t.wf.deterministic, "execute_task", APPX["child"], 7)
        GOT.append((tag, inv.invocation_id))
    else:
        ex = t.wf.deterministic
        r = yield from coop._coop_call(ex, "random")
        u = yield from coop._coop_call(ex, "uuid")
        tm = yield from coop._coop_call(ex, "utc_now")
        r2 = yield from coop._coop_call(ex, "random")
        GOT.append((tag, (r, u, r2)))          # (utc_now is anchored on the wall-clock time of the first request: not comparable between two runs)
    raise RetryError("stay re-executable")

pctx.thread_local = coop.ActorLocal()
wd.threading = coop.CoopThreading()            # a lock added to the executor must be cooperative in this simulation
if hasattr(wd, "Future"):
    wd.Future = coop.CoopFuture
ALL = {"run", "execute_task", "result", "random", "uuid", "utc_now", "_deterministic_operation"}
coop.yieldify(wd.DeterministicExecutor, ["execute_task", "random", "uuid", "utc_now", "_deterministic_operation"], all_names=ALL,
              nested_defs=True, gen_calls={"generator"})
coop.yieldify(DistributedInvocation, ["run"], all_names=ALL, gen_calls={"run_task_sync"})

def two_workflows(kind, first, slices):
    global LAST_DETAIL
    reset_uuid()
    GOT.clear()
    coop.CURRENT[0] = None
    app = mk_app(kind, app_id="c18s" + kind, cached_status_time=0.0)
    main = app.task(max_retries=50)(main_body)
    ch = app.task(child)
    warm_task(main); warm_task(ch)
    APPX.clear(); APPX.update({"main": main, "child": ch})
    ctx = runner_ctx("r1")
    invs = [main(0), main(1)]
    wf = [i.workflow for i in invs]
    def attempt(i):
        iid = invs[i].invocation_id
        obj = app.state_backend.get_invocation(iid)
        app.orchestrator.set_invocation_status(iid, St.PENDING, ctx)
        return coop.Actor(f"wf{i}", obj.run__gen(ctx))
    actors = [attempt(0), attempt(1)]
    res = coop.run_schedule(actors, first, slices)
    errs = [a.name + ":" + repr(a.error)[:100] for a in actors if a.error is not None]
    first_run = dict(GOT)
    why = None
    if res["deadlock"] or errs:
        why = "C18:concurrent-workflows:deadlock-or-error"
    elif set(first_run) != {0, 1}:
        why = "C18:concurrent-workflows:body-did-not-finish"
    else:
        key = None
        for i in (0, 1):
            sub = app.state_backend.get_invocation(first_run[i])
            if sub.workflow.workflow_id != wf[i].workflow_id:
                why = "C18:concurrent-workflows:sub-task-of-another-workflow"; break
        if why is None and first_run[0] == first_run[1]:
            why = "C18:concurrent-workflows:sub-task-shared"
        if why is None:
            n = len(list(app.orchestrator.get_task_invocation_ids(ch.task_id)))
            if n != 2:
                why = f"C18:concurrent-workflows:sub-task-launch-count:{n}"
    if why is None:
        # replay: each body once more, alone; it must get the recorded sub-invocation back and launch nothing
        for i in (0, 1):
            GOT.clear()
            a = attempt(i)
            r2 = coop.run_schedule([a], 0, [])
            if a.error is not None or dict(GOT).get(i) != first_run[i]:
                why = "C18:concurrent-workflows:replay-got-another-sub-task"; break
        if why is None and len(list(app.orchestrator.get_task_invocation_ids(ch.task_id))) != 2:
            why = "C18:concurrent-workflows:replay-launched-again"
    coop.close_all_connections()
    LAST_DETAIL = {"kind": kind, "first_run": {k: v[-4:] for k, v in first_run.items()}, "errors": errs, "schedule": res["schedule"], "why": why}
    return why is None

def values_run(kind, first, slices):
    """deterministic values (random, uuid, utc_now, random) requested by the same task body for two workflows"""
    reset_uuid()
    GOT.clear()
    coop.CURRENT[0] = None
    MODE[0] = 1
    app = mk_app(kind, app_id="c18v" + kind, cached_status_time=0.0)
    main = app.task(max_retries=50)(main_body)
    ch = app.task(child)
    warm_task(main); warm_task(ch)
    APPX.clear(); APPX.update({"main": main, "child": ch})
    ctx = runner_ctx("r1")
    invs = [main(0), main(1)]
    actors = []
    for i in (0, 1):
        iid = invs[i].invocation_id
        obj = app.state_backend.get_invocation(iid)
        app.orchestrator.set_invocation_status(iid, St.PENDING, ctx)
        actors.append(coop.Actor(f"wf{i}", obj.run__gen(ctx)))
    res = coop.run_schedule(actors, first, slices)
    errs = [a.name + ":" + repr(a.error)[:100] for a in actors if a.error is not None]
    coop.close_all_connections()
    MODE[0] = 0
    return dict(GOT), errs, res

def two_workflows_values(kind, first, slices):
    """interleaved at line level the two workflows get exactly the values they get when they run one after the other (same ids)"""
    global LAST_DETAIL
    if kind not in REF:
        REF[kind] = values_run(kind, 0, [])[:2]       # the sequential run is the same for every schedule: computed once per process
    ref, errs0 = REF[kind]
    got, errs, res = values_run(kind, first, slices)
    why = None
    if errs0 or errs or res["deadlock"]:
        why = "C18:concurrent-values:deadlock-or-error"
    elif set(ref) != {0, 1} or set(got) != {0, 1}:
        why = "C18:concurrent-values:body-did-not-finish"
    elif got != ref:
        why = "C18:concurrent-values:value-differs-from-the-sequential-run"
    elif ref[0][0] == ref[1][0] or ref[0][1] == ref[1][1]:
        why = "C18:concurrent-values:value-shared-between-workflows"
    LAST_DETAIL = {"kind": kind, "sequential": {k: v[:2] for k, v in ref.items()}, "interleaved": {k: v[:2] for k, v in got.items()}, "errors": errs, "schedule": res["schedule"], "why": why}
    return why is None

def concurrent_values___KIND_____VLO__(first: int, k1: int, k2: int) -> bool:
    """
    pre: 0 <= first <= 0 and __VLO__ <= k1 <= __VHI__ and 0 <= k2 <= 28
    post: _
    """
    kk2 = 3 * k2        # the second workflow's slice in units of 3 steps (the first workflow's preemption point is exact)
    with NoTracing():
        return two_workflows_values(["mem", "sqlite"][__KIND__], first, [k1, kk2])

def concurrent___KIND__(first: int, k1: int, k2: int) -> bool:
    """
    pre: 0 <= first <= 1 and 0 <= k1 <= KMAX and 0 <= k2 <= KMAX
    post: _
    """
    with NoTracing():
        return two_workflows(["mem", "sqlite"][__KIND__], first, [k1, k2])
'''

EXTRA = r'''
def sched_twin(k1: int) -> bool:
    """
    pre: 0 <= k1 <= KMAX
    post: _
    """
    with NoTracing():
        two_workflows("mem", 0, [k1])
    return False

def canary_shared_record_key(first: int, k1: int, k2: int) -> bool:
    """
    pre: 0 <= first <= 1 and 0 <= k1 <= KMAX and 0 <= k2 <= KMAX
    post: _
    """
    # canary: sub-task records looked up without the workflow (one process-wide table) must be refuted
    table = {}
    import pynenc.state_backend.mem_state_backend as msb
    cls = msb.MemStateBackend
    og, os_ = cls.get_workflow_data, cls.set_workflow_data
    cls.get_workflow_data = lambda self, wf, key, default=None: table.get(key, default)
    cls.set_workflow_data = lambda self, wf, key, value: table.__setitem__(key, value)
    try:
        with NoTracing():
            return two_workflows("mem", first, [k1, k2])
    finally:
        cls.get_workflow_data, cls.set_workflow_data = og, os_
'''


def _key_from_replay(args, kwargs, replay_out):
    m = re.search(r"'why': '([^']+)'", replay_out or "")
    return m.group(1) if m else "C18:concurrent-workflows:unclassified"


def run(ctx: Ctx) -> None:
    kmax = 35   # an actor (run twin + execute_task twin) has about 21 yield points
    src = SRC
    conds = []
    head, f = SRC.split("def values_run(kind, first, slices):")
    f = "def values_run(kind, first, slices):" + f
    src = head
    vf_head, vf = f.split("def concurrent_values___KIND_____VLO__")
    vf, cf = vf.split("def concurrent___KIND__")
    vf = "def concurrent_values___KIND_____VLO__" + vf
    cf = "def concurrent___KIND__" + cf
    src += vf_head.replace("__KIND__", "0")
    for kind in (0, 1):
        for lo in range(0, 83, 21):
            src += vf.replace("__KIND__", str(kind)).replace("__VLO__", str(lo)).replace("__VHI__", str(min(82, lo + 20)))
            conds.append(Cond(f"concurrent_values_{kind}_{lo}", "confirm", 1500, keyfn=_key_from_replay))
    for kind in (0, 1):
        src += cf.replace("__KIND__", str(kind))
        conds.append(Cond(f"concurrent_{kind}", "confirm", 1500, keyfn=_key_from_replay))
        pass
    src += EXTRA
    conds += [Cond("sched_twin", "refute", 60), Cond("canary_shared_record_key", "refute", 300)]
    ctx.ch_batch("c18sched", src.replace("VKMAX", "82").replace("KMAX", str(kmax)), conds)
    ctx.functions_encoded += ["DeterministicExecutor.execute_task (line-level twin) inside DistributedInvocation.run twins of two workflows; WorkflowContext.deterministic; state backend workflow data"]
    ctx.bounds["concurrent values"] = "2 workflows of one task requesting random, uuid, utc_now, random through the real twins (closures included), first workflow preempted at any of its 0..82 steps, the second runs 0..84 steps (units of 3), compared with the sequential run of the same two workflows; both backends"
    ctx.bounds["concurrent workflows"] = f"2 workflows of one task, identical sub-call, first actor + 2 preemptions with slices 0..{kmax}, then a sequential replay of each; both backends"
    ctx.stubs += ["pynenc.context.thread_local -> per-actor storage", "threading / Future in workflow_deterministic -> cooperative stand-ins (only matter if the executor uses them)"]
