"""C09 part 2 — the mechanisms the single-slot no-deadlock argument rests on (unit level, CrossHair-decided):
 (a) get_invocations_to_run hands out blocking invocations before ordinary queue entries, on both backends;
 (b) ThreadRunner._reclaim_available_slots does not count a thread that declared it is waiting
     (_waiting_for_results), so a waiting task frees its slot;
 (c) a final status releases the waiters (part 1).
The composition (call trees complete with one slot) is checked by the thread-runner simulation in props/C09_sim.py.
"""

from engine.core import Cond, Ctx

SRC = r'''
from engine.hsupport import *
from engine import standins
from pynenc.invocation.status import InvocationStatus as St
from pynenc.runner.thread_runner import ThreadRunner, ThreadInfo
import pynenc.orchestrator.mem_orchestrator as mo, pynenc.orchestrator.sqlite_orchestrator as so
standins.install_sync_history()
standins.patch_clock(standins.CounterClock(1_700_000_000.0), mo, so)
LAST_DETAIL = None

def body(x: int = 0) -> int:
    return x

def priority(kind, nq, pos, n, parent_running):
    """queue of nq ordinary invocations; a child that a (running) parent waits on sits at queue position `pos`"""
    global LAST_DETAIL
    reset_uuid()
    app = mk_app(kind, app_id="c09p" + kind)
    task = app.task(body); warm_task(task)
    invs = new_invocations(app, task, nq + 2, [{"x": i} for i in range(nq + 2)])
    parent, child, others = invs[0], invs[1], invs[2:]
    while app.broker.retrieve_invocation():
        pass
    order = [o.invocation_id for o in others]
    order.insert(min(pos, len(order)), child.invocation_id)
    for iid in order:
        app.broker.route_invocation(iid)
    o = app.orchestrator
    ctx = runner_ctx("r1")
    if parent_running:
        o.set_invocation_status(parent.invocation_id, St.PENDING, ctx)
        o.set_invocation_status(parent.invocation_id, St.RUNNING, ctx)
    o.waiting_for_results(parent.invocation_id, [child.invocation_id])
    got = [i.invocation_id for i in o.get_invocations_to_run(n, ctx)]
    LAST_DETAIL = {"kind": kind, "queue": [x[-4:] for x in order], "child": child.invocation_id[-4:], "n": n, "got": [x[-4:] for x in got]}
    if not got or got[0] != child.invocation_id:
        return False                     # the blocking invocation must come first
    if len(got) != len(set(got)) or len(got) > n:
        return False
    return all(o.get_invocation_status(g) == St.PENDING for g in got)

class FT:
    def __init__(self, alive): self.alive = alive; self.joined = False
    def is_alive(self): return self.alive
    def join(self, timeout=None): self.joined = True

def slots(max_threads, flags):
    """flags: per thread 2 bits (alive, waiting) for up to 3 threads"""
    global LAST_DETAIL
    app = mk_app("mem", app_id="c09slots", runner_cls="ThreadRunner", max_threads=max_threads, min_threads=1)
    task = app.task(body); warm_task(task)
    runner = ThreadRunner(app)
    with NoTracing():
        runner.conf
    runner._on_start()
    invs = new_invocations(app, task, 3)
    expected_busy = 0
    for i, inv in enumerate(invs):
        alive = bool((flags >> (2 * i)) & 1); waiting = bool((flags >> (2 * i + 1)) & 1)
        runner.threads[inv.invocation_id] = ThreadInfo(FT(alive), inv)
        if waiting:
            runner._waiting_for_results(inv.invocation_id, ["x"], None)      # what a task does when it waits for sub-task results
        if alive and not waiting:
            expected_busy += 1
    free = runner._reclaim_available_slots()
    LAST_DETAIL = {"max_threads": max_threads, "flags": flags, "free": free, "expected": max(1, max_threads) - expected_busy,
                   "tracked": len(runner.threads)}
    ok = free == runner.max_parallel_slots - expected_busy
    # dead threads are forgotten, alive ones stay tracked
    exp_tracked = sum(1 for i in range(3) if (flags >> (2 * i)) & 1)
    return ok and len(runner.threads) == exp_tracked

def _prio(kind_i, nq, pos, n, parent_running):
    kind_i = pick(kind_i, 0, 1); nq = pick(nq, 0, 3); pos = pick(pos, 0, 3); n = pick(n, 1, 2); parent_running = pick(parent_running, 0, 1)
    with NoTracing():
        return priority(["mem", "sqlite"][kind_i], nq, pos, n, bool(parent_running))

def prio(kind_i: int, nq: int, pos: int, n: int, parent_running: int) -> bool:
    """
    pre: 0 <= kind_i <= 1 and 0 <= nq <= 3 and 0 <= pos <= 3 and 1 <= n <= 2 and 0 <= parent_running <= 1
    post: _
    """
    return _prio(kind_i, nq, pos, n, parent_running)

def slot_accounting(max_threads: int, flags: int) -> bool:
    """
    pre: 1 <= max_threads <= 3 and 0 <= flags <= 63
    post: _
    """
    max_threads = pick(max_threads, 1, 3); flags = pick(flags, 0, 63)
    with NoTracing():
        return slots(max_threads, flags)

def prio_twin(nq: int, pos: int) -> bool:
    """
    pre: 0 <= nq <= 3 and 0 <= pos <= 3
    post: _
    """
    _prio(0, nq, pos, 1, 1)
    return False

def canary_fifo_only(nq: int) -> bool:
    """
    pre: 1 <= nq <= 3
    post: _
    """
    # mutation canary: an orchestrator that ignores the blocking list must be refuted (child at the queue tail)
    import pynenc.orchestrator.base_orchestrator as bo
    orig = bo.BaseOrchestrator.get_blocking_invocations
    bo.BaseOrchestrator.get_blocking_invocations = lambda self, n: iter(())
    try:
        return _prio(0, nq, 3, 1, 1)
    finally:
        bo.BaseOrchestrator.get_blocking_invocations = orig
'''


def run(ctx: Ctx) -> None:
    ctx.ch_batch("c09runner", SRC, [Cond("prio", "confirm", 900), Cond("slot_accounting", "confirm", 600),
                                    Cond("prio_twin", "refute", 60), Cond("canary_fifo_only", "refute", 120)])
    ctx.functions_encoded += ["BaseOrchestrator.get_invocations_to_run/get_blocking_invocations_to_run (blocking-first policy)",
                              "ThreadRunner._reclaim_available_slots/_waiting_for_results"]
    ctx.bounds["runner mechanisms"] = "queue of 0-3 ordinary invocations + one awaited child at any position, limit 1-2, both backends; 3 threads x (alive, waiting) flags, 1-3 slots"
    ctx.assumptions += ["the mechanisms are also exercised together by the thread-runner simulation (C09_sim) for 6 tree shapes"]
