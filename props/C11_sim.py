"""C11 part C (SCHED stage 2) — a stop request injected at every scheduling round of a simulated ThreadRunner run.

Same simulation as props/C09_sim.py (real runner loop twin, real run/result/results twins, task threads as actors).
A `stopper` actor idles for a symbolic number of rounds and then calls the real stop_runner_loop(); the loop actor then
leaves its `while running` loop and executes the real on_stop(). Joining a live stand-in thread keeps scheduling the
other task threads (they are real threads in production) until the joined one ends or the step budget is exhausted
(= the join never returns). Workloads: independent tasks, a retrying task, a task waiting for sub-tasks.
Post-condition: the stop completes and every invocation of the workload is final, or available + queued + unowned;
nothing PENDING / RUNNING / KILLED under the stopped runner.
"""

import re

from engine.core import Cond, Ctx
from props import C09_sim

EXTRA_SRC = r'''
from pynenc.exceptions import RetryError
from pynenc.runner.base_runner import BaseRunner

class Hang(Exception):
    pass

# the stop path is cooperative too: it may have to wait for an invocation lock held by a preempted task thread
ALL2 = ALL | {"on_stop", "_on_stop", "_kill_and_reroute"}
coop.yieldify(BaseRunner, ["on_stop", "_kill_and_reroute"], all_names=ALL2, gen_names=GEN)
coop.yieldify(ThreadRunner, ["_on_stop"], all_names=ALL2, gen_names=GEN)

ATTEMPTS = {}
def flaky(x: int):
    ATTEMPTS[x] = ATTEMPTS.get(x, 0) + 1
    if ATTEMPTS[x] == 1:
        raise RetryError("once more")
    return x
    yield  # pragma: no cover

def _join(self, timeout=None):
    """main thread blocked in join(): the other task threads keep running; give up after a step budget"""
    me = coop.CURRENT[0]
    steps = 0
    while self.is_alive():
        progressed = False
        for a in list(ACTORS):
            if a is me or a.done or a.crashed or not a.name.startswith("task:"):
                continue
            r = a.step()
            steps += 1
            progressed = progressed or r != "B"
        coop.CURRENT[0] = me
        if steps > 4000 or not progressed:
            raise Hang(self.inv.invocation_id)
FakeThread.join = _join

def queue_list(app):
    out = []
    while True:
        x = app.broker.retrieve_invocation()
        if x is None:
            break
        out.append(x)
    for x in out:
        app.broker.route_invocation(x)
    return out

KNOWN_HANG = "C11:stop-joins-a-task-waiting-for-a-queued-child"

def stop_sim(workload, slots, rounds, quantum, tolerate=()):
    """workload 0: two independent tasks; 1: a retrying task + an independent one; 2: a task waiting for a sub-task (+ one independent)"""
    global LAST_DETAIL
    reset_uuid()
    ACTORS.clear(); ATTEMPTS.clear(); AWAITED.clear()
    coop.CURRENT[0] = None
    app = mk_app("mem", app_id="c11sim", runner_cls="ThreadRunner", max_threads=slots, min_threads=1, cached_status_time=0.0)
    tasks = {"leaf": app.task(leaf), "mid": app.task(mid), "root": app.task(root), "flaky": app.task(max_retries=2)(flaky)}
    for t in tasks.values():
        warm_task(t)
    APPX.clear(); APPX.update(tasks)
    runner = ThreadRunner(app)
    with NoTracing():
        runner.conf
    runner._on_start()
    runner.running = True
    app.runner = runner
    if workload == 0:
        invs = [tasks["leaf"](1), tasks["leaf"](2)]
    elif workload == 1:
        invs = [tasks["flaky"](7), tasks["leaf"](2)]
    else:
        invs = [tasks["root"](0), tasks["leaf"](2)]
    o = app.orchestrator
    outcome = {"stop": "not-requested", "alive_at_stop": set(), "hung_on": None}
    def loop_gen():
        pctx.set_current_runner(app.app_id, runner)
        n = 0
        while runner.running and n < 400:
            n += 1
            yield from runner.runner_loop_iteration__gen()
            yield ("L", -1)
        outcome["alive_at_stop"] = {k for k, ti in runner.threads.items() if ti.thread.is_alive()}
        try:
            yield from runner.on_stop__gen()  # the real stop (twin): kill + reroute + join
            outcome["stop"] = "completed"
        except Hang as e:
            outcome["stop"] = "hangs"; outcome["hung_on"] = str(e)
    def stopper_gen():
        i = 0
        while coop.sym_lt(i, rounds):
            i += 1
            yield ("L", -2)
        runner.stop_runner_loop()
        yield ("L", -3)
    loop = coop.Actor("runner-loop", loop_gen())
    ACTORS.extend([loop, coop.Actor("stopper", stopper_gen())])
    res = coop.run_schedule(ACTORS, 0, [], quantum=quantum, stop_when=lambda: loop.done, max_total=30000, budget_is_deadlock=True)
    errs = [a.name + ":" + repr(a.error) for a in ACTORS if a.error is not None and a.name == "runner-loop"]
    # every invocation the workload created (children included)
    ids = [i for i in o.invocation_status_record]
    q = queue_list(app)
    why = None
    if errs:
        why = "C11:sim:loop-or-stop-raised"
    elif outcome["stop"] == "hangs":
        # the listed known finding: the awaited child was still QUEUED (no thread) when the stop began. A child that had a live
        # thread when the stop began would have finished by itself and released its parent: that hang is a different defect.
        pending_children = [c for c in AWAITED if not o.get_invocation_status(c).is_final()]
        if any(c in outcome["alive_at_stop"] for c in pending_children):
            why = "C11:stop-kills-a-live-child-before-joining-its-waiting-parent"
        else:
            why = KNOWN_HANG
    elif outcome["stop"] != "completed":
        why = "C11:sim:stop-did-not-complete"
    else:
        for iid in ids:
            rec = o.get_invocation_status_record(iid)
            if rec.status.is_final():
                continue
            if rec.status in (St.PENDING, St.RUNNING, St.KILLED, St.PAUSED, St.RESUMED):
                why = f"C11:left-{rec.status.value}-under-stopped-runner"; break
            if rec.status.is_available_for_run():
                if iid not in q:
                    why = f"C11:{rec.status.value}-but-not-queued"; break
                continue
            why = f"C11:left-in-{rec.status.value}"; break
    LAST_DETAIL = {"workload": workload, "slots": slots, "stop": outcome["stop"], "deadlock": res["deadlock"], "hung_on": (outcome["hung_on"] or "")[-4:],
                   "alive_at_stop": sorted(x[-4:] for x in outcome["alive_at_stop"]), "awaited": [x[-4:] for x in AWAITED],
                   "final": {i[-4:]: (o.get_invocation_status_record(i).status.value, o.get_invocation_status_record(i).runner_id) for i in ids},
                   "queue": [x[-4:] for x in q], "errors": errs[:2], "why": why}
    return why is None or why in tolerate
'''

F = r'''
def stop___W_____SLOTS_____RLO__(rounds: int, quantum: int, work: int) -> bool:
    """
    pre: __RLO__ <= rounds <= __RHI__ and 1 <= quantum <= 3 and 0 <= work <= 2
    post: _
    """
    quantum = pick(quantum, 1, 3)
    LEAF_WORK[0] = [0, 40, 400][pick(work, 0, 2)]
    with NoTracing():
        return stop_sim(__W__, __SLOTS__, rounds, quantum, __TOL__)

def finding_stop___W_____SLOTS__(rounds: int, quantum: int) -> bool:
    """
    pre: 0 <= rounds <= RMAX and 1 <= quantum <= 3
    post: _
    """
    quantum = pick(quantum, 1, 3)
    LEAF_WORK[0] = 0
    with NoTracing():
        return stop_sim(__W__, __SLOTS__, rounds, quantum)
'''


def _key_from_replay(args, kwargs, replay_out):
    m = re.search(r"'why': '([^']+)'", replay_out or "")
    return m.group(1) if m else "C11:sim:unclassified"


def run(ctx: Ctx) -> None:
    thorough = ctx.tier == "thorough"
    rmax = 400 if thorough else 150
    known = "C11:stop-joins-a-task-waiting-for-a-queued-child"
    tol = repr((known,)) if ctx.known_status(known) == "known" else "()"
    src = C09_sim.SRC + EXTRA_SRC
    conds = []
    for w in (0, 1, 2):
        for slots in (1, 2):
            f = F.replace("__W__", str(w)).replace("__SLOTS__", str(slots)).replace("__TOL__", tol if w == 2 else "()")
            fmain, ffind = f.split("def finding_stop_")
            half = rmax // 2
            for lo, hi in ((0, half), (half + 1, rmax)):
                src += fmain.replace("__RLO__", str(lo)).replace("__RHI__", str(hi))
                conds.append(Cond(f"stop_{w}_{slots}_{lo}", "confirm", 3000, keyfn=_key_from_replay))
            if w == 2:
                src += "def finding_stop_" + ffind.replace("RMAX", str(rmax))
            if w == 2:
                conds.append(Cond(f"finding_stop_{w}_{slots}", "finding", 3000, key=known, keyfn=_key_from_replay,
                                  what="whole-run simulation: a stop request while a task waits for a sub-task that is still queued: on_stop joins the waiting task's thread and never returns"))
    ctx.ch_batch("c11sim", src, conds)
    ctx.functions_encoded += ["BaseRunner.stop_runner_loop/on_stop + ThreadRunner._on_stop inside the whole-run simulation (real loop, run, result twins)"]
    ctx.bounds["simulated run"] = (f"workloads: two independent tasks / a retrying task + an independent one / a task waiting for a sub-task (+ an independent one); 1-2 slots; "
                                   f"stop request after 0..{rmax} fair round-robin rounds (quantum 1..3); leaf bodies take 0 / 40 / 400 cooperative steps; in-memory stack. In the waiting workload the listed known finding "
                                   f"(awaited child still queued when the stop begins) is tolerated and every other outcome must be clean; a separate condition reproduces the known finding")
