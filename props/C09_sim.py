"""C09 part 3 (SCHED stage 2) — a task that waits for sub-tasks never prevents them from running: call trees on the real
ThreadRunner with 1 or 2 slots.

Actors: the runner loop (real runner_loop_iteration twin, repeated) and one actor per task thread (threading.Thread is a
stand-in whose start() registers `invocation.run` - the real twin - as a new actor). Task bodies are cooperative
generators: `yield from inv.result__gen()` / iteration of `group.results__gen()` run the REAL result / results code
(property twins), so a waiting task really goes through orchestrator.waiting_for_results and runner.waiting_for_results.
pynenc.context's thread-local storage is replaced by per-actor storage. Symbolic: tree shape, slots, first actor, two
preemption points, fair round-robin quantum. Verdict: the root becomes SUCCESS with the expected value; no deadlock
(no progress for a full round, or step budget exhausted).
"""

import re

from engine.core import Cond, Ctx

SRC = r'''
from engine.hsupport import *
from engine import standins, coop
from pynenc import context as pctx
from pynenc.invocation.status import InvocationStatus as St
from pynenc.invocation.dist_invocation import DistributedInvocation, DistributedInvocationGroup
from pynenc.runner.thread_runner import ThreadRunner
import pynenc.runner.thread_runner as tr
import pynenc.invocation.dist_invocation as di
import pynenc.orchestrator.mem_orchestrator as mo, pynenc.orchestrator.sqlite_orchestrator as so
import pynenc.orchestrator.base_orchestrator as bo
import pynenc.broker.mem_broker as mb
standins.install_sync_history()
standins.patch_clock(standins.CounterClock(1_700_000_000.0), mo, so)
LAST_DETAIL = None
APPX = {}
ACTORS = []
AWAITED = []      # ids of the sub-invocations some task body waits for (bookkeeping of the harness, used to classify hangs)

# ---------------------------------------------------------------- cooperative task bodies (call trees)
LEAF_WORK = [0]   # cooperative steps a leaf body takes before it returns (0 in the C09 trees; C11 varies it)
def leaf(x: int):
    for _ in range(LEAF_WORK[0]):
        yield ("L", -5)
    return x

def wait_one(task_name, arg):
    inv = APPX[task_name](arg)
    AWAITED.append(inv.invocation_id)
    r = yield from inv.result__gen()
    return r

def wait_group(task_name, args):
    group = APPX[task_name].parallelize([(a,) for a in args])
    AWAITED.extend(i.invocation_id for i in group.invocations)
    out = []
    for ev in group.results__gen():
        if ev[0] == "O":
            out.append(ev[1])
        else:
            yield ev
    return sum(out)

def mid(x: int):
    r = yield from wait_one("leaf", x + 100)
    return r + 1

def root(shape: int):
    if shape == 0:      # single child
        r = yield from wait_one("leaf", 1)
    elif shape == 1:    # group of two children
        r = yield from wait_group("leaf", [1, 2])
    elif shape == 2:    # depth 2: child waits for a grandchild
        r = yield from wait_one("mid", 1)
    elif shape == 3:    # two single waits one after the other
        a = yield from wait_one("leaf", 1)
        b = yield from wait_one("mid", 2)
        r = a + b
    elif shape == 4:    # group of two, each waiting for a grandchild (depth 2, fan-out 2)
        r = yield from wait_group("mid", [1, 2])
    else:               # mixed: a single wait, then a group
        a = yield from wait_one("mid", 1)
        b = yield from wait_group("leaf", [5, 6])
        r = a + b
    return r

EXPECTED = {0: 1, 1: 3, 2: 102, 3: 1 + 103, 4: 102 + 103, 5: 102 + 11}

# ---------------------------------------------------------------- stand-ins
class FakeThread:
    def __init__(self, target=None, args=(), kwargs=None, daemon=None, name=None, **kw):
        self.inv = target.__self__            # bound method invocation.run
        self.args = args
        self.actor = None
        self.name = name or "fake"
    def start(self):
        self.actor = coop.Actor("task:" + self.inv.invocation_id[-4:], self.inv.run__gen(*self.args))
        ACTORS.append(self.actor)
    def is_alive(self):
        return self.actor is not None and not self.actor.done
    def join(self, timeout=None):
        if self.is_alive():
            raise coop.HarnessLimit("join on a live stand-in thread")

class _FakeThreading:
    Thread = FakeThread
    def __getattr__(self, n):
        import threading
        return getattr(threading, n)

class _NoSleep:
    def sleep(self, s): pass
    def time(self): return 1_700_000_000.0

BASE = ["get_invocations_to_run", "get_blocking_invocations_to_run", "get_additional_invocations_to_run", "reroute_invocations", "set_invocation_status",
        "set_invocation_result", "set_invocation_exception", "set_invocation_retry"]
MEM_NAMES = ["_atomic_status_transition", "_get_invocation_lock", "_interanl_atomic_status_transition"]
GEN = {"get_invocations_to_run", "get_blocking_invocations_to_run", "get_additional_invocations_to_run", "results"}
ALL = set(BASE + MEM_NAMES + ["retrieve_invocation", "runner_loop_iteration", "run"])
def install():
    pctx.thread_local = coop.ActorLocal()
    mo.threading = coop.CoopThreading()
    tr.threading = _FakeThreading()
    tr.time = _NoSleep()
    coop.yieldify(bo.BaseOrchestrator, BASE, all_names=ALL, gen_names=GEN)
    coop.yieldify(mo.MemOrchestrator, MEM_NAMES, all_names=ALL, gen_names=GEN)
    coop.yieldify(mb.MemBroker, ["retrieve_invocation"], all_names=ALL, gen_names=GEN)
    coop.yieldify(ThreadRunner, ["runner_loop_iteration"], all_names=ALL, gen_names=GEN)
    coop.yieldify(DistributedInvocation, ["run"], all_names=ALL, gen_names=GEN, gen_calls={"run_task_sync"})
    coop.yieldify(DistributedInvocation, ["result"], all_names=ALL, gen_names=GEN)
    coop.yieldify(DistributedInvocationGroup, ["results"], all_names=ALL, gen_names=GEN, prop_names={"result"})
install()

def simulate(shape, slots, first, slices, quantum, no_priority=False):
    global LAST_DETAIL
    reset_uuid()
    ACTORS.clear(); AWAITED.clear()
    coop.CURRENT[0] = None
    app = mk_app("mem", app_id="c09sim", runner_cls="ThreadRunner", max_threads=slots, min_threads=1, cached_status_time=0.0)
    tasks = {"leaf": app.task(leaf), "mid": app.task(mid), "root": app.task(root)}
    for t in tasks.values():
        warm_task(t)
    APPX.clear(); APPX.update(tasks)
    runner = ThreadRunner(app)
    with NoTracing():
        runner.conf
    runner._on_start()
    runner.running = True
    app.runner = runner
    if no_priority:
        app.orchestrator.get_blocking_invocations = lambda n: iter(())
    root_inv = tasks["root"](shape)
    rid = root_inv.invocation_id
    o = app.orchestrator
    def loop_gen():
        pctx.set_current_runner(app.app_id, runner)
        for _ in range(400):
            yield from runner.runner_loop_iteration__gen()
            yield ("L", -1)
    ACTORS.append(coop.Actor("runner-loop", loop_gen()))
    done = lambda: o.get_invocation_status(rid).is_final()
    res = coop.run_schedule(ACTORS, first, slices, quantum=quantum, stop_when=done, max_total=15000, budget_is_deadlock=True)
    st = o.get_invocation_status(rid)
    errs = [a.name + ":" + repr(a.error) for a in ACTORS if a.error is not None]
    value = app.state_backend.get_result(rid) if st == St.SUCCESS else None
    why = None
    if errs:
        why = "C09:simulation:actor-raised"
    elif st != St.SUCCESS:
        why = "C09:simulation:deadlock-root-never-finishes" if res["deadlock"] or not st.is_final() else "C09:simulation:root-" + st.value
    elif value != EXPECTED[shape]:
        why = "C09:simulation:wrong-value"
    LAST_DETAIL = {"shape": shape, "slots": slots, "schedule": res["schedule"], "deadlock": res["deadlock"], "root": st.value, "value": value,
                   "actors": [(a.name, a.done, a.steps) for a in ACTORS], "errors": errs[:2], "why": why}
    return why is None
'''

F = r'''
def tree___SHAPE_____SLOTS__(first: int, k1: int, k2: int, quantum: int) -> bool:
    """
    pre: 0 <= first <= 1 and 0 <= k1 <= KMAX and 0 <= k2 <= K2MAX and 1 <= quantum <= 3
    post: _
    """
    quantum = pick(quantum, 1, 3)
    with NoTracing():
        return simulate(__SHAPE__, __SLOTS__, first, [k1, k2] if K2MAX else [k1], quantum)
'''

EXTRA = r'''
def sim_twin(k1: int) -> bool:
    """
    pre: 0 <= k1 <= KMAX
    post: _
    """
    with NoTracing():
        simulate(0, 1, 0, [k1], 2)
    return False

def canary_no_priority(k1: int) -> bool:
    """
    pre: 0 <= k1 <= 5
    post: _
    """
    # mutation canary: with ONE slot and the blocking-first policy switched off AND the waiting thread still counted,
    # a parent waiting for its child can never be served: the simulation must report the deadlock
    orig = ThreadRunner._waiting_for_results
    ThreadRunner._waiting_for_results = lambda self, a, b, c=None: None      # waiting threads keep their slot
    try:
        with NoTracing():
            return simulate(0, 1, 0, [k1], 2, no_priority=True)
    finally:
        ThreadRunner._waiting_for_results = orig
'''


def _key_from_replay(args, kwargs, replay_out):
    m = re.search(r"'why': '([^']+)'", replay_out or "")
    return m.group(1) if m else "C09:simulation:unclassified"


def run(ctx: Ctx) -> None:
    thorough = ctx.tier == "thorough"
    kmax = 60 if thorough else 40
    k2max = 60 if thorough else 0
    src = SRC
    conds = []
    for shape in range(6):
        for slots in (1, 2):
            src += F.replace("__SHAPE__", str(shape)).replace("__SLOTS__", str(slots)).replace("K2MAX", str(k2max)).replace("KMAX", str(kmax))
            conds.append(Cond(f"tree_{shape}_{slots}", "confirm", 3000, keyfn=_key_from_replay))
    src += EXTRA.replace("KMAX", str(kmax))
    conds += [Cond("sim_twin", "refute", 60), Cond("canary_no_priority", "refute", 300)]
    ctx.ch_batch("c09sim", src, conds)
    ctx.functions_encoded += ["ThreadRunner.runner_loop_iteration/_reclaim_available_slots/_waiting_for_results (real, line-level twin of the loop)",
                              "DistributedInvocation.run / .result and DistributedInvocationGroup.results (real, property twins)",
                              "BaseOrchestrator.get_invocations_to_run (blocking first) / waiting_for_results / set_invocation_status / set_invocation_result (twins), MemBlockingControl"]
    ctx.bounds["call trees"] = (f"6 tree shapes (single child, group of 2, depth 2, two sequential waits, group of 2 with grandchildren, mixed), thread runner with 1 and 2 slots, "
                                f"in-memory stack; first actor, {"2 preemption points" if thorough else "1 preemption point"} 0..{kmax}, then fair round-robin with quantum 1..3; step budget 15000")
    ctx.stubs += ["threading.Thread in thread_runner -> stand-in whose start() registers the real invocation.run twin as a new actor", "pynenc.context.thread_local -> per-actor storage",
                  "task bodies are cooperative generators that `yield from` the real result/results twins; run_task_sync's result is driven as part of the actor", "time.sleep no-op"]
    ctx.assumptions += ["virtual time: fairness = every runnable actor gets at most `quantum` steps per round after the two preemption points", "SQLite stack and retrying tasks are not part of this simulation"]
