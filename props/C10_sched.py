"""C10 part 2 (SCHED): one actor's set_invocation_status (line-level twin) is preempted at a symbolic step by another
actor that performs the next legal changes of the same invocation; the flushed history must still be a lifecycle
path with one entry per successful change, each attributed to the runner that made it."""

import re

from engine.core import Cond, Ctx

SRC = r'''
from engine.hsupport import *
from engine import standins, coop
from engine.specs.status_spec import EDGES
from pynenc.invocation.status import InvocationStatus as St
from pynenc.exceptions import InvocationStatusError
import pynenc.orchestrator.mem_orchestrator as mo, pynenc.orchestrator.sqlite_orchestrator as so
import pynenc.orchestrator.base_orchestrator as bo
standins.install_sync_history()
standins.patch_clock(standins.CounterClock(1_600_000_000.0), mo, so)
LAST_DETAIL = None
MEM_NAMES = ["_atomic_status_transition", "_get_invocation_lock", "_interanl_atomic_status_transition"]
ALL = set(["set_invocation_status"] + MEM_NAMES)
mo.threading = coop.CoopThreading()
coop.install_sqlite_standin()
coop.yieldify(bo.BaseOrchestrator, ["set_invocation_status"], all_names=ALL)
coop.yieldify(mo.MemOrchestrator, MEM_NAMES, all_names=ALL)
coop.yieldify(so.SQLiteOrchestrator, ["_atomic_status_transition"], all_names=ALL, sql=True)

def body() -> int:
    return 1

# scenarios: (name, actor A's change, the other actor's follow-up changes, prefix to reach the start state)
SCEN = [
    ("claim-vs-recovery", [(St.PENDING, "r1")], [(St.PENDING_RECOVERY, "rec"), (St.REROUTED, "rec")], []),
    ("start-vs-kill", [(St.RUNNING, "r1")], [(St.KILLED, "r1"), (St.REROUTED, "r1")], [(St.PENDING, "r1")]),
    ("retry-vs-claim", [(St.RETRY, "r1")], [(St.PENDING, "r2")], [(St.PENDING, "r1"), (St.RUNNING, "r1")]),
]

def interleave(kind, si, k):
    global LAST_DETAIL
    reset_uuid()
    app = mk_app(kind, app_id="c10s" + kind)
    task = app.task(body); warm_task(task)
    inv = new_invocations(app, task, 1)[0]
    iid = inv.invocation_id
    o = app.orchestrator
    ctx = {n: runner_ctx(n) for n in ("r1", "r2", "rec")}
    name, a_changes, b_changes, prefix = SCEN[si]
    made = [("registered", o.get_invocation_status_record(iid).runner_id)]
    for st, rn in prefix:
        o.set_invocation_status(iid, st, ctx[rn]); made.append((st.value, rn))
    done = []
    def a_gen():
        for st, rn in a_changes:
            yield from o.set_invocation_status__gen(iid, st, ctx[rn])
            done.append((st.value, rn))
    def b_gen():
        for st, rn in b_changes:
            try:
                yield from o.set_invocation_status__gen(iid, st, ctx[rn])
                done.append((st.value, rn))
            except InvocationStatusError:
                return
    A, B = coop.Actor("A", a_gen()), coop.Actor("B", b_gen())
    res = coop.run_schedule([A, B], 0, [k, 1000])
    coop.close_all_connections()
    app.state_backend.wait_for_all_async_operations()
    hist = sorted(app.state_backend.get_history(iid), key=lambda h: h.status_record.timestamp)
    got = [(h.status_record.status.value, h.runner_context_id) for h in hist]
    cur = o.get_invocation_status(iid).value
    why = None
    if A.error is not None and not isinstance(A.error, InvocationStatusError):
        why = "C10:actor-raised:" + type(A.error).__name__
    elif len(got) != len(made) + len(done):
        why = "C10:history-entry-count-differs-from-successful-changes"
    elif not got or got[0][0] != "registered" or got[-1][0] != cur:
        why = "C10:history-does-not-end-at-current-status"
    elif any((a[0], b[0]) not in EDGES for a, b in zip(got, got[1:])):
        why = "C10:history-is-not-a-path-of-the-lifecycle-graph"
    elif sorted(got) != sorted(made + done):
        why = "C10:history-entry-attributed-to-wrong-runner-or-status"
    LAST_DETAIL = {"kind": kind, "scenario": name, "k": k, "history": got, "changes_made": made + done, "current": cur, "why": why}
    return why is None

def late___KIND__(si: int, k: int) -> bool:
    """
    pre: 0 <= si <= 2 and 0 <= k <= 30
    post: _
    """
    si = pick(si, 0, 2)
    with NoTracing():
        return interleave(["mem", "sqlite"][__KIND__], si, k)

def late_twin(k: int) -> bool:
    """
    pre: 0 <= k <= 30
    post: _
    """
    with NoTracing():
        interleave("mem", 0, k)
    return False
'''


def _key_from_replay(args, kwargs, replay_out):
    m = re.search(r"'why': '([^']+)'", replay_out or "")
    return m.group(1) if m else "C10:unclassified"


def run(ctx: Ctx) -> None:
    for kind in (0, 1):
        ctx.ch_batch(f"c10sched{kind}", SRC.replace("__KIND__", str(kind)),
                     [Cond(f"late_{kind}", "confirm", 900, keyfn=_key_from_replay), Cond("late_twin", "refute", 60)])
    ctx.bounds["interleaved"] = ("actor A's set_invocation_status (line-level twin) preempted at step 0..30 by another actor that performs the next legal "
                                 "changes (claim vs recovery, start vs kill, retry vs claim), both backends")
    ctx.functions_encoded += ["BaseOrchestrator.set_invocation_status (line-level twin) + backend transition twins, interleaved"]
