"""C14 — process-based runners keep their worker pool at capacity when workers die (DESIGN 3/C14).

CH: the real _on_start / runner_loop_iteration / get_active_child_runner_ids /
_report_child_runner_heartbeats of PersistentProcessRunner, MultiThreadRunner and ProcessRunner with
multiprocessing.Process / Manager / cpu_count replaced by controllable stand-ins. Symbolic: capacity,
options, queue length and, per loop iteration, the bitmask of workers that die before it.
"""

import re

from engine.core import Cond, Ctx

SRC = r'''
from engine.hsupport import *
from engine import standins
import pynenc.runner.persistent_process_runner as ppr
import pynenc.runner.multi_thread_runner as mtr
import pynenc.runner.process_runner as prr
import pynenc.runner.base_runner as brr

standins.install_sync_history()
LAST_DETAIL = None
CPU = [2]

class FakeProcess:
    seq = 0
    def __init__(self, target=None, kwargs=None, args=(), daemon=None, **kw):
        FakeProcess.seq += 1
        self.pid = None
        self.alive = False
        self.kwargs = kwargs or {}
        self.n = FakeProcess.seq
    def start(self):
        self.pid = 1000 + self.n
        self.alive = True
    def is_alive(self):
        return self.alive
    def terminate(self):
        self.alive = False
    def kill(self):
        self.alive = False
    def join(self, timeout=None):
        return None

class FakeManager:
    def dict(self):
        return {}
    def Event(self):
        import threading
        return threading.Event()
    def shutdown(self):
        pass

class FakeMP:
    def get_start_method(self, allow_none=False):
        return "spawn"
    def set_start_method(self, *a, **k):
        pass
    def cpu_count(self):
        return CPU[0]

class NoSleepTime:
    def __init__(self):
        self.t = 1_700_000_000.0
    def sleep(self, s):
        self.t += s
    def time(self):
        return self.t

for m in (ppr, mtr, prr):
    m.Process = FakeProcess
    m.Manager = FakeManager
    m.warn_missing_main_guard = lambda: None
    m.time = NoSleepTime()
ppr.multiprocessing = FakeMP()
ppr.os = type("OS", (), {"cpu_count": staticmethod(lambda: CPU[0]), "getpid": staticmethod(lambda: 1)})()
mtr.cpu_count = lambda: CPU[0]
prr.cpu_count = lambda: CPU[0]

def body() -> int:
    return 1

def procs_of(runner):
    out = []
    for rid, v in runner.child_runner_ids.items():
        out.append((rid, v.process if hasattr(v, "process") else v))
    return out

def scenario(kind, cap, enforce, minp, queue, masks):
    """kind 0 PPR, 1 MTR, 2 PR. Returns False on a violated expectation (LAST_DETAIL says which)."""
    global LAST_DETAIL
    reset_uuid()
    FakeProcess.seq = 0
    CPU[0] = cap
    conf = {}
    if kind == 0:
        conf = {"num_processes": cap, "runner_cls": "PersistentProcessRunner"}
    elif kind == 1:
        conf = {"max_processes": cap, "min_processes": min(minp, cap), "enforce_max_processes": bool(enforce), "runner_cls": "MultiThreadRunner"}
    else:
        conf = {"min_parallel_slots": 1, "runner_cls": "ProcessRunner"}
    app = mk_app("mem", app_id=f"c14k{kind}", **conf)
    task = app.task(body)
    warm_task(task)
    if kind == 2:
        new_invocations(app, task, queue)       # real registered + queued invocations
    else:
        for i in range(queue):
            app.broker.route_invocation(f"fake-{i}")
    cls = [ppr.PersistentProcessRunner, mtr.MultiThreadRunner, prr.ProcessRunner][kind]
    runner = cls(app)
    runner.conf
    hb = []
    real_hb = app.orchestrator.register_runner_heartbeats
    def rec_hb(ids, can_run_atomic_service=False):
        hb.append(list(ids))
        return real_hb(ids, can_run_atomic_service)
    app.orchestrator.register_runner_heartbeats = rec_hb
    runner.running = True
    runner._on_start()
    log = []
    def fail(why):
        global LAST_DETAIL
        LAST_DETAIL = {"kind": ["PPR", "MTR", "PR"][kind], "cap": cap, "enforce": enforce, "min": minp, "queue": queue, "masks": masks, "log": log, "why": why}
        return False
    def one_iteration():
        alive_ids = sorted(rid for rid, p in procs_of(runner) if p.is_alive())
        hb.clear()
        runner._report_child_runner_heartbeats()
        reported = sorted(x for call in hb for x in call if x in dict(procs_of(runner)) or True)
        # heartbeats on behalf of children: exactly the live ones (child self-registration is a separate call path)
        if reported != alive_ids:
            return fail(f"C14:{['PPR','MTR','PR'][kind]}:heartbeat-for-dead-or-missing")
        runner.runner_loop_iteration()
        tracked = procs_of(runner)
        log.append(("iter", len(tracked), sum(1 for _, p in tracked if p.is_alive())))
        return True
    for mask in masks:
        tracked = procs_of(runner)
        for i, (rid, p) in enumerate(tracked):
            if (mask >> i) & 1:
                p.alive = False
        log.append(("die", mask, len(tracked)))
        if not one_iteration():
            return False
    for _ in range(2):
        if not one_iteration():
            return False
    tracked = procs_of(runner)
    live = [p for _, p in tracked if p.is_alive()]
    name = ["PPR", "MTR", "PR"][kind]
    if len(live) != len(tracked):
        return fail(f"C14:{name}:dead-worker-still-tracked")
    if kind == 0 and len(live) != cap:
        return fail(f"C14:{name}:pool-below-capacity")
    if kind == 1:
        if enforce and len(live) != cap:
            return fail(f"C14:{name}:pool-below-capacity")
        if not enforce and queue > len(live) and len(live) < cap:
            return fail(f"C14:{name}:no-scale-up-for-queued-work")
    if kind == 2:
        # dynamic pool: as long as a slot is free and work is queued it is picked up
        free = runner.max_parallel_slots - len(live)
        if free > 0 and app.broker.count_invocations() > 0:
            return fail(f"C14:{name}:free-slot-with-queued-work")
    LAST_DETAIL = {"log": log}
    return True

def go(kind, cap, enforce, minp, queue, m1, m2, m3):
    cap = pick(cap, 1, 3); enforce = pick(enforce, 0, 1); minp = pick(minp, 1, 3); queue = pick(queue, 0, 4)
    masks = [pick(m, 0, 7) for m in (m1, m2, m3)]
    with NoTracing():
        return scenario(kind, cap, enforce, minp, queue, masks)
'''

F = r'''
def pool_k__K___c__C__(enforce: int, minp: int, queue: int, m1: int, m2: int, m3: int) -> bool:
    """
    pre: __EPRE__ and 1 <= minp <= __MINMAX__ and __QPRE__
    pre: 0 <= m1 <= 7 and 0 <= m2 <= 7 and __M3PRE__
    post: _
    """
    return go(__K__, __C__, enforce, minp, queue, m1, m2, m3)
'''

EXTRA = r'''
def twin(kind: int, cap: int, m1: int) -> bool:
    """
    pre: 0 <= kind <= 2 and 1 <= cap <= 3 and 0 <= m1 <= 7
    post: _
    """
    kind = pick(kind, 0, 2)
    go(kind, cap, 1, 1, 1, m1, 0, 0)
    return False

def canary_no_prune(m1: int) -> bool:
    """
    pre: 0 <= m1 <= 7
    post: _
    """
    # mutation canary: a PPR whose loop forgets to prune dead workers must be refuted
    orig = ppr.PersistentProcessRunner.runner_loop_iteration
    def bad(self):
        current = len(self.child_runner_ids)
        for _ in range(self.num_processes - current):
            self._spawn_persistent_process()
    ppr.PersistentProcessRunner.runner_loop_iteration = bad
    try:
        return go(0, 2, 1, 1, 0, m1, 0, 0)
    finally:
        ppr.PersistentProcessRunner.runner_loop_iteration = orig
'''


def _key_from_replay(args, kwargs, replay_out):
    m = re.search(r"'why': '([^']+)'", replay_out or "")
    return m.group(1) if m else "C14:unclassified"


def run(ctx: Ctx) -> None:
    thorough = ctx.tier == "thorough"
    src = SRC.replace("__M3PRE__", "0 <= m3 <= 7" if thorough else "m3 == 0")
    conds = []
    for k in range(3):
        for c in (1, 2, 3):
            variants = [("", "enforce == 1", "0 <= queue <= 4" if k != 0 else "queue == 0")]
            if k == 1:   # MultiThreadRunner: split the option space so that every condition stays confirmable
                variants = [(f"_e{e}_q{q}", f"enforce == {e}", f"queue == {q}") for e in (0, 1) for q in (0, 2, 4)]
            for suffix, epre, qpre in variants:
                f = F.replace("__M3PRE__", "0 <= m3 <= 7" if thorough else "m3 == 0").replace("pool_k__K___c__C__", f"pool_k{k}_c{c}{suffix}").replace("__K__", str(k)).replace("__C__", str(c))
                f = f.replace("__EPRE__", epre).replace("__MINMAX__", str(c) if k == 1 else "1").replace("__QPRE__", qpre)
                src += f
                conds.append(Cond(f"pool_k{k}_c{c}{suffix}", "confirm", 900, keyfn=_key_from_replay))
    src += EXTRA
    conds += [Cond("twin", "refute", 60), Cond("canary_no_prune", "refute", 120)]
    ctx.ch_batch("c14", src, conds)
    ctx.functions_encoded += [
        "PersistentProcessRunner._on_start/_spawn_persistent_process/runner_loop_iteration/get_active_child_runner_ids",
        "MultiThreadRunner._on_start/_spawn_thread_runner_process/runner_loop_iteration/_scale_up_processes/_cleanup_dead_processes/get_active_child_runner_ids",
        "ProcessRunner._on_start/runner_loop_iteration/_reclaim_available_slots/get_active_child_runner_ids",
        "BaseRunner._report_child_runner_heartbeats",
    ]
    ctx.bounds = {"capacity": "1..3", "iterations": "2 death rounds quick / 3 thorough (any subset of up to 3 tracked workers each, incl. all at once) + 2 settle iterations",
                  "options": "MTR: enforce_max_processes on/off, min_processes 1..capacity; queue length 0..4 (MultiThreadRunner: 0, 2, 4)"}
    ctx.stubs += ["multiprocessing.Process -> FakeProcess (start/terminate/kill/join recorded; is_alive from the death plan)",
                  "Manager -> FakeManager; cpu_count -> capacity; time.sleep no-op; deterministic uuid4",
                  "register_runner_heartbeats wrapped by a recorder (the real method is still called)"]
    ctx.assumptions += ["worker processes never execute (stand-ins): the claim is about the parent's bookkeeping, not about OS process behaviour"]
