"""C11 — stopping a runner leaves none of its invocations owned or unqueued (DESIGN 3/C11).

A. CH (unit level): the real ThreadRunner._on_stop + BaseRunner._kill_and_reroute over a thread table of up to 3
   entries with thread stand-ins. Symbolic per entry: liveness, status at stop, and what the thread does while it
   is being joined (nothing / finishes SUCCESS / FAILED / RETRY through the real orchestrator calls / cannot finish
   because it waits for a queued child).
B. SCHED: the real ThreadRunner.runner_loop_iteration (line-level twin, with the real lazy claim generator) and a
   stop request injected at a symbolic step; then the real on_stop. Post-condition as in A.
"""

import re

from engine.core import Cond, Ctx

SRC = r'''
from engine.hsupport import *
from engine import standins, coop
from pynenc.invocation.status import InvocationStatus as St
from pynenc.exceptions import InvocationStatusError
from pynenc.runner.thread_runner import ThreadRunner, ThreadInfo
import pynenc.runner.thread_runner as tr
import pynenc.orchestrator.mem_orchestrator as mo, pynenc.orchestrator.sqlite_orchestrator as so
import pynenc.orchestrator.base_orchestrator as bo
import pynenc.broker.mem_broker as mb
standins.install_sync_history()
standins.patch_clock(standins.CounterClock(1_700_000_000.0), mo, so)
LAST_DETAIL = None

class Hang(Exception):
    pass

def body(x: int = 0) -> int:
    return x

class FakeThread:
    """threading.Thread stand-in: never runs the target by itself; join() plays the scripted end of the thread"""
    created = []
    def __init__(self, target=None, args=(), kwargs=None, daemon=None, name=None, **kw):
        self.target, self.args = target, args
        self.alive = False
        self.name = name or f"fake-{len(FakeThread.created)}"
        self.on_join = None
        self.joined = False
        FakeThread.created.append(self)
    def start(self):
        self.alive = True
    def is_alive(self):
        return self.alive
    def join(self, timeout=None):
        self.joined = True
        if self.alive and self.on_join is not None:
            self.on_join()
        self.alive = False

class _NoSleep:
    def sleep(self, s): pass
    def time(self): return 1_700_000_000.0
tr.time = _NoSleep()

def queue_list(app):
    out = []
    while True:
        x = app.broker.retrieve_invocation()
        if x is None:
            break
        out.append(x)
    for x in out:
        app.broker.route_invocation(x)
    return out

def post_condition(app, runner, ids, hung):
    o = app.orchestrator
    q = queue_list(app)
    for iid in ids:
        rec = o.get_invocation_status_record(iid)
        if rec.status.is_final():
            continue
        if rec.status in (St.PENDING, St.RUNNING, St.KILLED, St.PAUSED, St.RESUMED) :
            if rec.status == St.KILLED or rec.runner_id == runner.runner_id:
                return f"C11:left-{rec.status.value}-under-stopped-runner"
            continue       # owned by somebody else: not this runner's invocation
        if rec.status.is_available_for_run():
            if rec.runner_id not in (None, ) and rec.status != St.REGISTERED:
                return "C11:available-but-still-owned"
            if iid not in q:
                return f"C11:{rec.status.value}-but-not-queued"
            continue
        return f"C11:left-in-{rec.status.value}"
    return None

# ------------------------------------------------------------------ A: unit level
# per-entry plan codes: (alive, status at stop, behaviour while joined)
PLANS = [
    (True, "pending", "none"),        # thread started, run() has not reached RUNNING yet
    (True, "running", "none"),        # executing; never finishes by itself during the stop (killed + rerouted)
    (True, "running", "success"),     # finishes while being joined
    (True, "running", "failed"),
    (True, "running", "retry"),
    (False, "success", "none"),
    (False, "failed", "none"),
    (False, "retry", "none"),         # finished with a retriable error: RETRY + re-queued already
    (False, "running", "none"),       # thread died without finishing (BaseException in the body)
    (True, "running", "waits-child"), # polling a queued child that nobody will run once this runner stopped
]

def unit(kind, plans):
    global LAST_DETAIL
    reset_uuid()
    FakeThread.created = []
    app = mk_app(kind, app_id="c11" + kind, runner_cls="ThreadRunner", max_retries=3)
    task = app.task(max_retries=3)(body); warm_task(task)
    runner = ThreadRunner(app)
    with NoTracing():
        runner.conf
    runner._on_start()
    ctx = runner.runner_context
    o = app.orchestrator
    invs = new_invocations(app, task, len(plans) + 1, [{"x": i} for i in range(len(plans) + 1)])
    child = invs[-1]
    invs = invs[:-1]
    # the runner claimed them: drain the queue (the child stays queued)
    while app.broker.retrieve_invocation():
        pass
    app.broker.route_invocation(child.invocation_id)
    hung = []
    for inv, pi in zip(invs, plans):
        alive, status, beh = PLANS[pi]
        iid = inv.invocation_id
        o.set_invocation_status(iid, St.PENDING, ctx)
        if status != "pending":
            o.set_invocation_status(iid, St.RUNNING, ctx)
        if status == "success":
            o.set_invocation_result(inv, 1, ctx)
        elif status == "failed":
            o.set_invocation_exception(inv, ValueError("x"), ctx)
        elif status == "retry":
            o.set_invocation_retry(iid, RuntimeError("again"), ctx)
        th = FakeThread()
        th.alive = alive
        def make(inv=inv, beh=beh, th=th):
            def on_join():
                # what DistributedInvocation.run does at its end; status errors are swallowed there
                try:
                    if beh == "success":
                        o.set_invocation_result(inv, 1, ctx)
                    elif beh == "failed":
                        o.set_invocation_exception(inv, ValueError("x"), ctx)
                    elif beh == "retry":
                        o.set_invocation_retry(inv.invocation_id, RuntimeError("again"), ctx)
                    elif beh == "waits-child":
                        if not o.get_invocation_status(child.invocation_id).is_final():
                            hung.append(inv.invocation_id)
                            raise Hang("join() on a thread that waits for a child nobody will run")
                except InvocationStatusError:
                    pass
            return on_join
        th.on_join = make()
        runner.threads[iid] = ThreadInfo(th, inv)
        if beh == "waits-child":
            runner.waiting_invocation_ids.add(iid)
            o.waiting_for_results(iid, [child.invocation_id])
    runner.running = False
    try:
        runner._on_stop()
        stopped = "completed"
    except Hang:
        stopped = "hangs"
    except Exception as e:
        stopped = "raised " + type(e).__name__
    why = None
    if stopped == "hangs":
        why = "C11:stop-joins-a-task-waiting-for-a-queued-child"
    elif stopped != "completed":
        why = "C11:stop-" + stopped.replace(" ", "-")
    else:
        why = post_condition(app, runner, [i.invocation_id for i in invs], hung)
    LAST_DETAIL = {"kind": kind, "plans": [PLANS[p] for p in plans], "stop": stopped,
                   "final": {i.invocation_id[-4:]: (o.get_invocation_status_record(i.invocation_id).status.value, o.get_invocation_status_record(i.invocation_id).runner_id) for i in invs},
                   "queue": [x[-4:] for x in queue_list(app)], "why": why}
    return why is None

# ------------------------------------------------------------------ B: stop request during a loop iteration
BASE_NAMES = ["get_invocations_to_run", "get_blocking_invocations_to_run", "get_additional_invocations_to_run", "reroute_invocations", "set_invocation_status"]
MEM_NAMES = ["_atomic_status_transition", "_get_invocation_lock", "_interanl_atomic_status_transition"]
ALLN = set(BASE_NAMES + MEM_NAMES + ["retrieve_invocation", "runner_loop_iteration"])
def install_loop():
    mo.threading = coop.CoopThreading()
    coop.install_sqlite_standin()
    coop.yieldify(bo.BaseOrchestrator, BASE_NAMES, all_names=ALLN)
    coop.yieldify(mo.MemOrchestrator, MEM_NAMES, all_names=ALLN)
    coop.yieldify(mb.MemBroker, ["retrieve_invocation"], all_names=ALLN)
    coop.yieldify(ThreadRunner, ["runner_loop_iteration"], all_names=ALLN, gen_names={"get_invocations_to_run", "get_blocking_invocations_to_run", "get_additional_invocations_to_run"})

class _FakeThreading:
    Thread = FakeThread
    def __getattr__(self, n):
        import threading
        return getattr(threading, n)

def loop_stop(nq, slots, k):
    global LAST_DETAIL
    reset_uuid()
    FakeThread.created = []
    tr.threading = _FakeThreading()
    app = mk_app("mem", app_id="c11loop", runner_cls="ThreadRunner", max_threads=slots)
    task = app.task(body); warm_task(task)
    runner = ThreadRunner(app)
    with NoTracing():
        runner.conf
    runner._on_start()
    runner.running = True
    invs = new_invocations(app, task, nq, [{"x": i} for i in range(nq)])
    ids = [i.invocation_id for i in invs]
    loop = coop.Actor("loop", runner.runner_loop_iteration__gen())
    def stopper():
        runner.stop_runner_loop()          # what the signal handler / stop request does
        yield ("L", 0)
    stop = coop.Actor("stop", stopper())
    res = coop.run_schedule([loop, stop], 0, [k])
    err = None
    if loop.error is not None:
        err = "C11:loop-iteration-raised:" + type(loop.error).__name__
    # run() leaves its while loop (running is False) and calls on_stop
    try:
        runner.on_stop()
    except Exception as e:
        err = err or ("C11:on_stop-raised:" + type(e).__name__)
    why = err or post_condition(app, runner, ids, [])
    o = app.orchestrator
    LAST_DETAIL = {"queued": nq, "slots": slots, "k": k, "loop_trace": loop.trace[-6:], "threads": len(runner.threads),
                   "final": {i[-4:]: (o.get_invocation_status_record(i).status.value, o.get_invocation_status_record(i).runner_id) for i in ids},
                   "queue": [x[-4:] for x in queue_list(app)], "why": why}
    return why is None
'''

UNITF = r'''
def stop_unit___KIND____SUF__(n: int, p1: int, p2: int, p3: int) -> bool:
    """
    pre: 1 <= n <= 3 and __PLO__ <= p1 <= __PHI__ and 0 <= p2 <= 8 and 0 <= p3 <= 8
    post: _
    """
    n = pick(n, 1, 3); plans = [pick(p1, __PLO__, __PHI__)] + [pick(p, 0, 8) for p in (p2, p3)]; plans = plans[:n]
    with NoTracing():
        return unit(["mem", "sqlite"][__KIND__], plans)
'''

EXTRA = r'''
install_loop()

def stop_during_loop(nq: int, slots: int, k: int) -> bool:
    """
    pre: 1 <= nq <= 3 and 1 <= slots <= 3 and 0 <= k <= KMAX
    post: _
    """
    nq = pick(nq, 1, 3); slots = pick(slots, 1, 3)
    with NoTracing():
        return loop_stop(nq, slots, k)

def twin(p1: int) -> bool:
    """
    pre: 0 <= p1 <= 8
    post: _
    """
    p1 = pick(p1, 0, 8)
    with NoTracing():
        unit("mem", [p1])
    return False

def finding_waits_child(kind_i: int, p2: int) -> bool:
    """
    pre: 0 <= kind_i <= 1 and 0 <= p2 <= 8
    post: _
    """
    kind_i = pick(kind_i, 0, 1); p2 = pick(p2, 0, 8)
    with NoTracing():
        return unit(["mem", "sqlite"][kind_i], [9, p2])

def canary_no_reroute(p1: int) -> bool:
    """
    pre: 1 <= p1 <= 4
    post: _
    """
    # mutation canary: a stop that only joins (no kill + reroute) must be refuted
    p1 = pick(p1, 1, 4)
    from pynenc.runner.base_runner import BaseRunner
    orig = BaseRunner._kill_and_reroute
    BaseRunner._kill_and_reroute = lambda self, invocation_id, runner_ctx=None: None
    try:
        with NoTracing():
            return unit("mem", [1, p1])
    finally:
        BaseRunner._kill_and_reroute = orig
'''


def _key_from_replay(args, kwargs, replay_out):
    m = re.search(r"'why': '([^']+)'", replay_out or "")
    return m.group(1) if m else "C11:unclassified"


def run(ctx: Ctx) -> None:
    kmax = 70
    src = SRC
    conds = []
    for kind in (0, 1):
        for lo in (0, 3, 6):
            src += UNITF.replace("__KIND__", str(kind)).replace("__SUF__", "" if lo == 0 else f"_p{lo}").replace("__PLO__", str(lo)).replace("__PHI__", str(lo + 2))
            conds.append(Cond(f"stop_unit_{kind}" + ("" if lo == 0 else f"_p{lo}"), "confirm", 1500, keyfn=_key_from_replay))
    src += EXTRA.replace("KMAX", str(kmax))
    conds += [
             Cond("stop_during_loop", "confirm", 900, keyfn=_key_from_replay),
             Cond("twin", "refute", 60), Cond("canary_no_reroute", "refute", 120),
             Cond("finding_waits_child", "finding", 300, key="C11:stop-joins-a-task-waiting-for-a-queued-child",
                  what="ThreadRunner._on_stop kills+reroutes an alive task that is waiting for a queued child and then joins its thread; once this runner stopped polling nobody runs the child, so the join (and the stop) never completes")]
    ctx.ch_batch("c11", src, conds)
    from props import C11_sim
    C11_sim.run(ctx)
    ctx.functions_encoded += ["ThreadRunner._on_start/_on_stop/runner_loop_iteration (line-level twin)/_reclaim_available_slots", "BaseRunner._kill_and_reroute/stop_runner_loop/on_stop",
                              "BaseOrchestrator.get_invocations_to_run (lazy claim generator twins)/reroute_invocations/set_invocation_status/set_invocation_result/exception/retry"]
    ctx.bounds = {"unit": "1-3 claimed invocations, each with one of 9 (liveness, status at stop, behaviour while joined) plans; both backends",
                  "loop": f"queue of 1-3 invocations, 1-3 slots, stop request injected after step 0..{kmax} of one real loop iteration (in-memory stack), then the real on_stop"}
    ctx.stubs += ["threading.Thread -> FakeThread (never runs the target by itself; join() plays the scripted end of the thread through the real orchestrator calls)",
                  "time.sleep no-op", "CoopLock, sync history, counter clock"]
    ctx.assumptions += ["task threads are stand-ins: the claim is about the runner's stop bookkeeping, not about real thread scheduling",
                        "PersistentProcessRunner / MultiThreadRunner stops (other processes) are not covered here"]
