"""C08 — broker exactly-once FIFO (DESIGN 3/C08).

Part 1 (CH): symbolic op sequences on the real MemBroker and SQLiteBroker vs a Python-list model.
Part 2 (SCHED): see props/C08 sched section (concurrent retrievers/routers, statement granularity).
"""

from engine.core import Cond, Ctx

SEQ = r'''
from engine.hsupport import *
from pynenc.util.sqlite_utils import create_sqlite_connection

with NoTracing():
    APPS = {"mem": mk_app("mem"), "sqlite": mk_app("sqlite")}
    # a second process on the same queue: another app object with the same id on the same database file
    APPS["sqlite_b"] = mk_app("sqlite", app_id=APPS["sqlite"].app_id, db_path=APPS["sqlite"].broker.sqlite_db_path)
IDS = ["inv-a", "inv-b", "inv-c"]
NOPS = 9

def reset():
    with NoTracing():
        APPS["mem"].broker._queue.clear()
        b = APPS["sqlite"].broker
        with create_sqlite_connection(b.sqlite_db_path) as conn:
            conn.execute(f"DELETE FROM {b.tables.QUEUE}")
            conn.commit()

def apply(broker, model, op):
    """returns (observation, expected)"""
    if op <= 2:
        broker.route_invocation(IDS[op]); model.append(IDS[op]); return (None, None)
    if op == 3:
        broker.route_invocations([IDS[0], IDS[1]]); model.extend([IDS[0], IDS[1]]); return (None, None)
    if op == 4:
        broker.route_invocations([IDS[1], IDS[1]]); model.extend([IDS[1], IDS[1]]); return (None, None)
    if op == 5:
        broker.route_invocations([]); return (None, None)
    if op == 6:
        got = broker.retrieve_invocation()
        exp = model.pop(0) if model else None
        return (got, exp)
    if op == 7:
        return (broker.count_invocations(), len(model))
    broker.purge(); model.clear(); return (None, None)

def run_seq(kind, ops, who=0):
    """who: bit i = which of the two SQLite broker instances (processes) performs op i; every instance must report the exact length after every op"""
    reset()
    brokers = [APPS[kind].broker] + ([APPS["sqlite_b"].broker] if kind == "sqlite" else [])
    model = []
    for i, op in enumerate(ops):
        broker = brokers[(who >> i) & 1] if len(brokers) > 1 else brokers[0]
        got, exp = apply(broker, model, op)
        if got != exp:
            return False
        if any(b.count_invocations() != len(model) for b in brokers):
            return False
    # drain: everything routed and not yet retrieved comes out exactly once, in order
    out = []
    for j in range(len(model) + 1):
        out.append(brokers[j % len(brokers)].retrieve_invocation())
    return out == model + [None] and all(b.count_invocations() == 0 for b in brokers)

def run_both(ops, who=0):
    # the solver decides the op codes (forked into concrete values); the real methods then run concretely
    ops = [pick(o, 0, NOPS - 1) for o in ops]
    who = [0, 5, 10, 6][pick(who, 0, 3)]      # which instance performs op i: all by A / alternating (two phases) / A B B A
    with NoTracing():
        return run_seq("mem", ops) and run_seq("sqlite", ops, who)
'''

F3 = r'''
def seq__K__(n: int, o2: int, o3: int, o4: int, who: int) -> bool:
    """
    pre: 1 <= n <= 4
    pre: 0 <= o2 < NOPS and 0 <= o3 < NOPS and 0 <= o4 < NOPS and 0 <= who <= 3
    post: _
    """
    return run_both([__K__, o2, o3, o4][:n], who)
'''

F5 = r'''
def seq5___K_____J__(o3: int, o4: int, o5: int) -> bool:
    """
    pre: 0 <= o3 < NOPS and 0 <= o4 < NOPS and 0 <= o5 < NOPS
    post: _
    """
    return run_both([__K__, __J__, o3, o4, o5])
'''

TWIN = r'''
def twin(n: int, o1: int, o2: int, o3: int) -> bool:
    """
    pre: 1 <= n <= 3
    pre: 0 <= o1 < NOPS and 0 <= o2 < NOPS and 0 <= o3 < NOPS
    post: _
    """
    run_both([o1, o2, o3][:n])
    return False

def canary_lifo(o1: int, o2: int) -> bool:
    """
    pre: 0 <= o1 < NOPS and 0 <= o2 < NOPS
    post: _
    """
    # wrong model on purpose (LIFO): must be refuted, i.e. the harness can tell FIFO from LIFO
    reset()
    b = APPS["mem"].broker
    model = []
    for op in (pick(o1, 0, NOPS - 1), pick(o2, 0, NOPS - 1)):
        apply(b, model, op)
    got = b.retrieve_invocation()
    exp = model.pop() if model else None
    return got == exp
'''


def run(ctx: Ctx) -> None:
    thorough = ctx.tier == "thorough"
    src = SEQ
    conds = []
    for k in range(9):
        src += F3.replace("__K__", str(k))
        conds.append(Cond(f"seq{k}", "confirm", 900))
    if thorough:
        for k in range(9):
            for j in range(9):
                src += F5.replace("__K__", str(k)).replace("__J__", str(j))
                conds.append(Cond(f"seq5_{k}_{j}", "confirm", 900))
    src += TWIN
    conds += [Cond("twin", "refute", 60), Cond("canary_lifo", "refute", 60)]
    res = ctx.ch_batch("c08seq", src, conds)
    ctx.functions_encoded += [
        "MemBroker.route_invocation/route_invocations/retrieve_invocation/count_invocations/purge",
        "SQLiteBroker.send_message/route_invocation/route_invocations/retrieve_invocation/count_invocations/purge",
    ]
    ctx.bounds["sequential"] = (
        "all op sequences of length <= 4 (thorough: <= 5) over 9 op letters "
        "(route a|b|c, batch [a,b], batch [b,b], batch [], retrieve, count, purge), both brokers, then drain; on SQLite the ops are spread over TWO broker instances "
        "on one database (4 assignment patterns) and both must report the exact length after every op")
    ctx.stubs.append("module-level apps reused across paths; queue reset by direct deque.clear()/DELETE (untraced)")
    ctx.assumptions += [
        "SQLite FIFO among messages with identical julianday('now') (same millisecond) relies on the (created_at,rowid) index scan order: observed, not controllable from Python",
    ]
    r = res.get("seq6")
    if r:
        ctx.samples.append({"obligation": "seq6", "state": r.state, "paths": r.num_paths,
                            "meaning": "all sequences starting with retrieve, length<=4, mem and sqlite vs list model"})
    try:
        from props import C08_sched
        C08_sched.run(ctx)
    except ImportError:
        ctx.assumptions.append("concurrent part (SCHED) not built in this revision")
