"""C03 — no accepted invocation is lost when a process dies at any step (DESIGN 3/C03).

SCHED with crash injection on the SQLite stack (the database file survives the process): for every actor role the
real multi-step operation is rewritten into a steppable twin (line / SQL-statement granularity) and stopped for
good after a symbolic number of steps (no unwinding; its open transaction is rolled back as the OS would).
Then (i) the instant invariant is evaluated: every accepted non-final invocation is queued while available, or is
PENDING/RUNNING under an owner; (ii) the clock is advanced past both recovery limits, the real recovery tasks and a
surviving worker loop run until quiescent, and every accepted invocation must be final with its body executed.
The fault-free executions (crash step beyond the end) are part of every condition.
"""

import re

from engine.core import Cond, Ctx

SRC = r'''
import dataclasses
from engine.hsupport import *
from engine import standins, coop
from pynenc import context
from pynenc.invocation.status import InvocationStatus as St
from pynenc.invocation.dist_invocation import DistributedInvocation
from pynenc.exceptions import RetryError
from pynenc.conf.config_task import ConcurrencyControlType as CC
from pynenc.runner.base_runner import BaseRunner, DummyRunner
import pynenc.core_tasks as ct
import pynenc.orchestrator.sqlite_orchestrator as so, pynenc.orchestrator.mem_orchestrator as mo
import pynenc.orchestrator.base_orchestrator as bo
import pynenc.broker.sqlite_broker as sb
import pynenc.runner.persistent_process_runner as pprm
standins.install_sync_history()
CLOCK = standins.CounterClock(1_700_000_000.0)
standins.patch_clock(CLOCK, mo, so)
LAST_DETAIL = None
TOLERATE = set(__TOLERATE__)
BODY = {"runs": 0, "mode": "ok"}
FINISH = []

def free_task(x: int = 0) -> int:
    BODY["free_runs"] = BODY.get("free_runs", 0) + 1
    return x

def work(x: int = 0) -> int:
    BODY["runs"] += 1
    if BODY["mode"] == "retry-once" and BODY["runs"] == 1:
        raise RetryError("again")
    return x

BASE = ["get_invocations_to_run", "get_blocking_invocations_to_run", "get_additional_invocations_to_run", "reroute_invocations",
        "set_invocation_status", "set_invocation_retry", "set_invocation_result", "set_invocation_exception"]
SCAN = ["get_pending_invocations_for_recovery", "_get_running_invocations_for_recovery"]
GEN = set(SCAN + ["get_invocations_to_run", "get_blocking_invocations_to_run", "get_additional_invocations_to_run"])
TASKS = ["recover_pending_invocations", "recover_running_invocations"]
ALL = set(BASE + SCAN + TASKS + ["_atomic_status_transition", "retrieve_invocation", "route_invocation", "send_message", "run", "_kill_and_reroute",
                                 "get_running_invocations_for_recovery", "increment_invocation_retries"])
class HOLDER:
    pass
def install():
    coop.install_sqlite_standin()
    coop.yieldify(bo.BaseOrchestrator, BASE + ["get_running_invocations_for_recovery"], all_names=ALL, gen_names=GEN)
    coop.yieldify(so.SQLiteOrchestrator, ["_atomic_status_transition", "increment_invocation_retries"] + SCAN, all_names=ALL, gen_names=GEN, sql=True)
    coop.yieldify(sb.SQLiteBroker, ["retrieve_invocation", "route_invocation", "send_message"], all_names=ALL, gen_names=GEN, sql=True)
    coop.yieldify(DistributedInvocation, ["run"], all_names=ALL, gen_names=GEN)
    coop.yieldify(BaseRunner, ["_kill_and_reroute"], all_names=ALL, gen_names=GEN)
    for nm in TASKS:
        setattr(HOLDER, nm, staticmethod(getattr(ct, nm).func))
    coop.yieldify(HOLDER, TASKS, all_names=ALL, gen_names=GEN)
    # the persistent-process worker's main function (its signal handling is replaced by a no-op stand-in)
    class _NoSignal:
        SIGTERM = 15; SIG_IGN = 1
        @staticmethod
        def signal(*a, **k): return None
    pprm.signal = _NoSignal
    coop.yieldify(pprm, ["persistent_process_main"], all_names=ALL, gen_names=GEN)
install()

class StopAfter:
    """stop_event stand-in: lets the worker loop run `n` iterations"""
    def __init__(self, n): self.n = n; self.calls = 0
    def is_set(self):
        self.calls += 1
        return self.calls > self.n
    def set(self): self.n = 0

def queue_list(app):
    out = []
    while True:
        x = app.broker.retrieve_invocation()
        if x is None:
            break
        out.append(x)
    for x in out:
        app.broker.route_invocation(x)
    return out

def set_ts(app, iid, ts):
    o = app.orchestrator
    with coop.coop_sqlite_connection(o.sqlite_db_path) as conn:
        conn.execute(f"UPDATE {o.tables.INVOCATIONS} SET status_timestamp=? WHERE invocation_id=?", (ts, iid)); conn.commit()

def classify(app, ids, role, crashed=True):
    """instant invariant: None if it holds, else a key naming the stranded state"""
    k = _classify(app, ids, role)
    if k is not None and not crashed:
        k += ":without-any-crash"      # the fault-free run itself strands an invocation: never a listed crash window
    return k

def _classify(app, ids, role):
    o = app.orchestrator
    q = queue_list(app)
    for iid in ids:
        rec = o.get_invocation_status_record(iid)
        s = rec.status
        if s.is_final():
            continue
        if s.is_available_for_run():
            if iid not in q:
                return f"C03:{role}:{s.value}-not-queued"
            continue
        if s in (St.PENDING, St.RUNNING):
            if not rec.runner_id:
                return f"C03:{role}:{s.value}-without-owner"
            continue
        return f"C03:{role}:stranded-in-{s.value}"
    return None

def drain(app, ids, finish_first=None):
    """advance the clock past both limits, run the real recovery tasks and a surviving worker until quiescent"""
    if finish_first is not None:      # the live runner that held the concurrency key finishes its invocation
        inv, ctxb = finish_first
        app.orchestrator.set_invocation_result(inv, 0, ctxb)
        BODY["runs"] += 0
    CLOCK.now += 10_000.0
    for iid in ids:      # PENDING age is taken from the status timestamp (real clock): make them old
        rec = app.orchestrator.get_invocation_status_record(iid)
        if rec.status == St.PENDING:
            set_ts(app, iid, CLOCK.now - 5_000.0)
    surv = runner_ctx("survivor")
    app.orchestrator.register_runner_heartbeats(["survivor"])
    context.set_current_app(app)
    context.set_runner_context(app.app_id, surv)
    for _ in range(3):
        ct.recover_pending_invocations.func()
        ct.recover_running_invocations.func()
        for _ in range(10):
            invs = list(app.orchestrator.get_invocations_to_run(1, surv))
            if not invs:
                break
            for inv in invs:
                try:
                    inv.run(surv)
                except Exception:
                    pass
    return [iid for iid in ids if not app.orchestrator.get_invocation_status(iid).is_final()]

def world(role, variant):
    reset_uuid()
    CLOCK.now = 1_700_000_000.0
    BODY["runs"] = 0
    BODY["mode"] = "retry-once" if (role == "worker" and variant == 1) else "ok"
    opts = {"max_retries": 3}
    if role in ("cc-reroute", "ppr-worker"):
        opts.update(running_concurrency=CC.TASK, reroute_on_concurrency_control=True)
    app = mk_app("sqlite", app_id="c03" + role.replace("-", ""), max_pending_seconds=30.0, runner_considered_dead_after_minutes=1.0, cached_status_time=0.0)
    task = app.task(**opts)(work); warm_task(task)
    with NoTracing():
        app.runner = DummyRunner(app)
        app.runner.conf
    return app, task

def crash_scenario(role, variant, k):
    """Returns (instant_key, not_final_after_recovery, body_runs, accepted ids)"""
    app, task = world(role, variant)
    FINISH.clear()
    o = app.orchestrator
    A = runner_ctx("crasher")
    o.register_runner_heartbeats(["crasher"])
    coop.CURRENT[0] = None
    context.set_current_app(app)
    if role == "claim":
        invs = new_invocations(app, task, 1 + variant)      # 1 or 2 queued invocations
        gen = o.get_invocations_to_run__gen(1, A)
    elif role == "worker":
        invs = new_invocations(app, task, 1)
        while app.broker.retrieve_invocation():
            pass
        o.set_invocation_status(invs[0].invocation_id, St.PENDING, A)
        inv = app.state_backend.get_invocation(invs[0].invocation_id)
        gen = inv.run__gen(A)
    elif role == "cc-reroute":
        invs = new_invocations(app, task, 2)
        B = runner_ctx("survivor")
        o.register_runner_heartbeats(["survivor"])
        first = app.broker.retrieve_invocation()
        o.set_invocation_status(first, St.PENDING, B)
        o.set_invocation_status(first, St.RUNNING, B)      # a live runner holds the key
        FINISH.append((app.state_backend.get_invocation(first), B))
        gen = o.get_invocations_to_run__gen(1, A)
    elif role == "ppr-worker":
        # a live runner holds the key; the queue holds a blocked invocation of the guarded task and then (variant 1) a second one
        invs = new_invocations(app, task, 2 + variant)
        B = runner_ctx("survivor")
        o.register_runner_heartbeats(["survivor"])
        first = app.broker.retrieve_invocation()
        o.set_invocation_status(first, St.PENDING, B)
        o.set_invocation_status(first, St.RUNNING, B)
        FINISH.append((app.state_backend.get_invocation(first), B))
        ft = app.task(free_task); warm_task(ft)
        invs = invs + new_invocations(app, ft, 1)      # a runnable invocation of another task queued BEHIND the blocked one(s)
        gen = pprm.persistent_process_main__gen(app, runner_cache={}, stop_event=StopAfter(2), parent_runner_ctx_json=A.to_json(), child_runner_id="ppr-child-1")
    elif role == "stop":
        invs = new_invocations(app, task, 1)
        while app.broker.retrieve_invocation():
            pass
        iid = invs[0].invocation_id
        o.set_invocation_status(iid, St.PENDING, A)
        if variant == 1:
            o.set_invocation_status(iid, St.RUNNING, A)
        runner = DummyRunner(app, runner_context=A)
        gen = runner._kill_and_reroute__gen(iid)
    elif role in ("pending-recovery", "running-recovery"):
        invs = new_invocations(app, task, 1 + variant)
        while app.broker.retrieve_invocation():
            pass
        D = runner_ctx("dead")
        CLOCK.now -= 5000.0
        o.register_runner_heartbeats(["dead"])
        CLOCK.now += 5000.0
        for i in invs:
            o.set_invocation_status(i.invocation_id, St.PENDING, D)
            if role == "running-recovery":
                o.set_invocation_status(i.invocation_id, St.RUNNING, D)
            else:
                set_ts(app, i.invocation_id, CLOCK.now - 1000.0)
        context.set_runner_context(app.app_id, A)
        gen = getattr(HOLDER, ("recover_pending_invocations" if role == "pending-recovery" else "recover_running_invocations") + "__gen")()
    else:
        raise ValueError(role)
    ids = [i.invocation_id for i in invs]
    actor = coop.Actor(role, gen)
    res = coop.run_schedule([actor], 0, [], crash=(0, k))
    for inv_out in actor.outs:
        pass
    coop.CURRENT[0] = None
    if actor.error is not None and not actor.crashed:
        return ("C03:" + role + ":actor-raised:" + type(actor.error).__name__, [], BODY["runs"], ids, actor)
    # a claimed invocation that the (dead or finished) poller received is PENDING under it: nothing else to do here
    key = classify(app, ids, role, crashed=actor.crashed)
    left = drain(app, ids, FINISH[0] if FINISH else None)
    if FINISH:
        BODY["runs"] = max(BODY["runs"], 1) if not left else BODY["runs"]
    coop.close_all_connections()
    return (key, left, BODY["runs"], ids, actor)

def check(role, variant, k, only_key=None):
    global LAST_DETAIL
    key, left, runs, ids, actor = crash_scenario(role, variant, k)
    LAST_DETAIL = {"role": role, "variant": variant, "crash_after_step": k, "crashed": actor.crashed, "steps": actor.steps, "last_lines": actor.trace[-4:],
                   "instant": key, "not_final_after_recovery": [x[-4:] for x in left], "body_runs": runs, "why": key}
    if only_key is not None:
        return key != only_key
    if key is not None:
        if key in TOLERATE:
            return True            # listed known finding (its consequence, not draining, is tolerated with it)
        return False
    if left:
        LAST_DETAIL["why"] = f"C03:{role}:not-final-after-recovery"
        return False
    if runs < 1:
        LAST_DETAIL["why"] = f"C03:{role}:body-never-executed"
        return False
    return True
'''

ROLES = [("claim", 2), ("worker", 2), ("cc-reroute", 1), ("ppr-worker", 2), ("stop", 2), ("pending-recovery", 2), ("running-recovery", 2)]

F = r'''
def crash___NAME__(variant: int, k: int) -> bool:
    """
    pre: 0 <= variant < __NV__ and 0 <= k <= KMAX
    post: _
    """
    variant = pick(variant, 0, __NV__ - 1)
    with NoTracing():
        return check("__ROLE__", variant, k)
'''

FIND = r'''
def finding___IDX__(variant: int, k: int) -> bool:
    """
    pre: 0 <= variant < __NV__ and 0 <= k <= KMAX
    post: _
    """
    variant = pick(variant, 0, __NV__ - 1)
    with NoTracing():
        return check("__ROLE__", variant, k, only_key="__KEY__")
'''

EXTRA = r'''
def twin(k: int) -> bool:
    """
    pre: 0 <= k <= KMAX
    post: _
    """
    with NoTracing():
        check("worker", 0, k)
    return False
'''


def _key_from_replay(args, kwargs, replay_out):
    m = re.search(r"'why': '([^']+)'", replay_out or "")
    return m.group(1) if m else "C03:unclassified"


RECWRAP = r'''
_c04_scenario = scenario
def scenario(*a):
    ok = _c04_scenario(*a)
    if not ok:
        why = LAST_DETAIL.get("why") or ""
        if why.startswith(("C04:recovery-stole", "C04:recovery-touched")):
            return True          # live work disturbed: C04's subject, not a stranding
        LAST_DETAIL["why"] = why.replace("C04:", "C03:recovery-race:")
    return ok
'''


def run(ctx: Ctx) -> None:
    kmax = 140
    known = sorted(ctx.known_keys())
    src = SRC.replace("__TOLERATE__", repr(known))
    conds = []
    for role, nv in ROLES:
        name = role.replace("-", "_")
        src += F.replace("__NAME__", name).replace("__ROLE__", role).replace("__NV__", str(nv)).replace("KMAX", str(kmax))
        conds.append(Cond(f"crash_{name}", "confirm", 1500, keyfn=_key_from_replay))
    for idx, key in enumerate(known):
        parts = key.split(":")
        if len(parts) < 3:
            continue
        role = parts[1]
        nv = dict(ROLES).get(role)
        if nv is None:
            continue
        src += FIND.replace("__IDX__", str(idx)).replace("__ROLE__", role).replace("__NV__", str(nv)).replace("__KEY__", key).replace("KMAX", str(kmax))
        what = next((k["what"] for k in ctx.known if k["key"] == key), key)
        conds.append(Cond(f"finding_{idx}", "finding", 600, key=key, what=what))
    src += EXTRA.replace("KMAX", str(kmax))
    conds.append(Cond("twin", "refute", 60))
    ctx.ch_batch("c03", src, conds)
    # no crash at all: a recovery run racing with a live owner must not strand what it had already taken (same scenario as C04's
    # recovery part, SQLite stack, only the stranding outcomes count here)
    from props import C04
    rsrc = C04.REC + RECWRAP
    rconds = []
    for which in (0, 1):
        for mover in (0, 1, 2):
            rsrc += (C04.RECF.replace("__KIND__", "1").replace("__WHICH__", str(which)).replace("__MOVER__", str(mover)).replace("__NLO__", "3").replace("KMAX", "60"))
            rconds.append(Cond(f"rec_1_{which}_{mover}", "confirm", 1500, keyfn=_key_from_replay))
    ctx.ch_batch("c03recrace", rsrc, rconds)
    ctx.functions_encoded += ["BaseOrchestrator.get_invocations_to_run (+ blocking/additional)/reroute_invocations/set_invocation_status/set_invocation_retry/set_invocation_result/exception",
                              "SQLiteOrchestrator._atomic_status_transition/increment_invocation_retries/recovery scans (statement level)", "SQLiteBroker.retrieve_invocation/route_invocation/send_message (statement level)",
                              "DistributedInvocation.run", "BaseRunner._kill_and_reroute", "core_tasks.recover_pending_invocations/recover_running_invocations"]
    ctx.bounds = {"crash": f"one hard crash after step k in 0..{kmax} (k beyond the end = fault-free run) of each actor role: runner claiming (1-2 queued), worker executing (success / retry path), "
                           "reroute on concurrency control, the persistent-process worker main loop (two iterations over a queue with blocked entries), kill-and-reroute on stop (PENDING / RUNNING), pending recovery task, running recovery task (1-2 invocations)",
                  "recovery race (no crash)": "3 stuck invocations, any subset fresh, an owner moves one of them at preemption point 0..60 of the recovery task twin (SQLite stack): nothing stays in a recovery status, REROUTED implies queued, every stale invocation is recovered",
                  "after the crash": "instant invariant, then clock + 10000 s, both real recovery tasks and a surviving worker loop until quiescent (sequential)"}
    ctx.stubs += ["crash = the actor's generator is abandoned (no finally blocks), its SQLite connections rolled back and closed", "SQLite stack only (an in-memory backend dies with its process)",
                  "counter clock; PENDING ages forced through the status timestamp", "DummyRunner as app.runner"]
    ctx.assumptions += ["client crashes before the call returns are not claimed (the invocation was never accepted)", "a single crash; the survivors run without further preemption (their interleavings are C02/C06's subject)",
                        "histories that end in a listed known stranded state are tolerated together with their consequence (the invocation is never drained)"]
    ctx.level = "fault_enumeration"
