#!/bin/bash
# usage: tools_seed_eval.sh Cxx [check-id ...]  -- apply seeded/Cxx/patch.diff to /repo, run the named checks (default: Cxx), undo.
# Writes seeded/Cxx/eval.log. NEVER run while another check is using /repo.
id=$1; shift; checks=${@:-$id}
cd /verif
git -C /repo status --short | grep -q . && { echo "/repo is dirty"; exit 2; }
git -C /repo apply seeded/$id/patch.diff || { echo "patch does not apply"; exit 2; }
: > seeded/$id/eval.log
for c in $checks; do
  s=$(date +%s)
  ./vf check $c > /tmp/vt/seed_${id}_$c.log 2>&1; rc=$?
  e=$(date +%s)
  echo "check=$c exit=$rc wall=$((e-s))s violations=$(grep -c '^VIOLATION' /tmp/vt/seed_${id}_$c.log)" >> seeded/$id/eval.log
  grep -A1 '^VIOLATION' /tmp/vt/seed_${id}_$c.log | grep -v '^--' | head -6 | cut -c1-300 >> seeded/$id/eval.log
done
git -C /repo checkout -- .
rm -rf /verif/replays
cat seeded/$id/eval.log
