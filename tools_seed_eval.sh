#!/bin/bash
# usage: tools_seed_eval.sh Cxx [check-id ...]
# Evaluates a seeded change WITHOUT touching /repo: a scratch worktree of /repo HEAD gets seeded/Cxx/patch.diff applied and is
# put first on PYTHONPATH; evidence/replays of these runs go to the scratch output directory (VERIF_OUT), not to /verif.
id=$1; shift; checks=${@:-${id:0:3}}   # id is a directory under seeded/: Cxx or Cxx-2 (second round)
wt=/tmp/mutc/$id; out=/tmp/mutc/$id.out
mkdir -p /tmp/mutc; git -C /repo worktree remove --force $wt 2>/dev/null; rm -rf $wt $out; mkdir -p $out
git -C /repo worktree add -q --detach $wt HEAD || exit 2
git -C $wt apply /verif/seeded/$id/patch.diff || { echo "patch does not apply to /repo HEAD"; git -C /repo worktree remove --force $wt; exit 2; }
cd /verif
: > seeded/$id/eval.log
echo "base=$(git -C /repo rev-parse --short HEAD) verif=$(git -C /verif rev-parse --short HEAD)" >> seeded/$id/eval.log
for c in $checks; do
  s=$(date +%s)
  PYTHONPATH=$wt VERIF_OUT=$out ./vf check $c > $out/check_$c.log 2>&1; rc=$?
  e=$(date +%s)
  echo "check=$c exit=$rc wall=$((e-s))s violations=$(grep -c '^VIOLATION' $out/check_$c.log)" >> seeded/$id/eval.log
  grep -A1 '^VIOLATION' $out/check_$c.log | grep -v '^--' | head -6 | cut -c1-300 >> seeded/$id/eval.log
done
git -C /repo worktree remove --force $wt; rm -rf $wt
cat seeded/$id/eval.log
