"""Stand-ins installed by harnesses (each one is listed in the evidence `stubs`)."""

from __future__ import annotations

import threading as _real_threading


class SyncThread:
    """threading.Thread stand-in that runs the target synchronously at start()."""

    def __init__(self, group=None, target=None, name=None, args=(), kwargs=None, daemon=None):
        self._target, self._args, self._kwargs = target, args, kwargs or {}
        self.name = name or "sync"
        self.daemon = daemon
        self.ident = 1
        self._started = False

    def start(self):
        self._started = True
        if self._target:
            self._target(*self._args, **self._kwargs)

    def join(self, timeout=None):
        return None

    def is_alive(self):
        return False


class DeferredThread(SyncThread):
    """Thread stand-in whose target runs only when the harness says so (late writers)."""

    pending: list["DeferredThread"] = []

    def start(self):
        self._started = True
        DeferredThread.pending.append(self)

    def run_now(self):
        if self._target:
            self._target(*self._args, **self._kwargs)

    def join(self, timeout=None):
        if self in DeferredThread.pending:
            DeferredThread.pending.remove(self)
            self.run_now()


class ThreadingStandIn:
    """Module-like object: `Thread` replaced, everything else from the real threading module."""

    def __init__(self, thread_cls=SyncThread):
        self.Thread = thread_cls

    def __getattr__(self, name):
        return getattr(_real_threading, name)


def install_sync_history() -> None:
    """History writer threads of BaseStateBackend run synchronously (deterministic paths)."""
    import pynenc.state_backend.base_state_backend as bsb

    bsb.threading = ThreadingStandIn(SyncThread)


def install_deferred_history() -> None:
    import pynenc.state_backend.base_state_backend as bsb

    DeferredThread.pending = []
    bsb.threading = ThreadingStandIn(DeferredThread)


class CounterClock:
    """Deterministic clock: returns a settable value (float seconds)."""

    def __init__(self, start: float = 1_000_000.0):
        self.now = start

    def __call__(self) -> float:
        return self.now

    def time(self) -> float:
        return self.now

    def sleep(self, s: float) -> None:
        self.now += s


def patch_clock(clock, *modules) -> None:
    """Replace `time` in modules: the function imported with `from time import time`, or the module `time`."""
    import types

    class _T:
        def __init__(self, c):
            self._c = c

        def time(self):
            return self._c()

        def sleep(self, s):
            self._c.sleep(s)

        def __getattr__(self, n):
            import time as _t
            return getattr(_t, n)

    for m in modules:
        cur = getattr(m, "time", None)
        if isinstance(cur, (types.ModuleType, _T)) or type(cur).__name__ == "_T":
            m.time = _T(clock)
        else:
            m.time = clock  # `from time import time`
