"""Importable value classes and a bounded value grammar for the round-trip checks (C15).

The classes live in a real module (not in a generated harness) because the JSON serializer reconstructs Enum /
exception / JsonSerializable objects by importing `module` + `qualname`, and pickle needs importable classes too.
"""

from enum import Enum, IntEnum, StrEnum
from typing import Any


class Color(Enum):
    RED = "red"
    BLUE = "blue"


class Level(IntEnum):
    LOW = 1
    HIGH = 3


class Tag(StrEnum):
    A = "a"
    B = "b"


class AppError(Exception):
    """a client-defined (non builtin) exception"""


class Money:
    """implements the JsonSerializable protocol of pynenc.serializer.json_serializer"""

    def __init__(self, amount: int, currency: str) -> None:
        self.amount = amount
        self.currency = currency

    def to_json(self) -> dict:
        return {"amount": self.amount, "currency": self.currency}

    @classmethod
    def from_json(cls, data: dict) -> "Money":
        return cls(data["amount"], data["currency"])

    def __eq__(self, other: object) -> bool:
        return type(other) is Money and (other.amount, other.currency) == (self.amount, self.currency)

    def __hash__(self) -> int:
        return hash((self.amount, self.currency))

    def __repr__(self) -> str:
        return f"Money({self.amount!r}, {self.currency!r})"


LEAVES = ["int", "str", "float", "None", "bool", "Enum", "IntEnum", "StrEnum", "builtin-exception", "client-exception",
          "JsonSerializable", "empty-list", "empty-dict", "builtin-exception-without-args", "client-exception-without-args"]
WRAPPERS = ["-", "[x]", "[x, 7]", "{'k': x}", "{'k': x, 'n': 1}"]


def leaf(i: int) -> Any:
    return [5, "s", 1.5, None, True, Color.RED, Level.HIGH, Tag.B, ValueError("bad", 3), AppError("custom", 1),
            Money(3, "EUR"), [], {}, TimeoutError(), AppError()][i]


def wrap(w: int, x: Any) -> Any:
    if w == 1:
        return [x]
    if w == 2:
        return [x, 7]
    if w == 3:
        return {"k": x}
    if w == 4:
        return {"k": x, "n": 1}
    return x


def build(wrappers: list[int], leaf_i: int) -> Any:
    """value = wrappers[0]( wrappers[1]( ... leaf ) ); wrapper 0 = none"""
    v = leaf(leaf_i)
    for w in reversed(wrappers):
        v = wrap(w, v)
    return v


def describe(wrappers: list[int], leaf_i: int) -> str:
    s = LEAVES[leaf_i]
    for w in reversed(wrappers):
        if w:
            s = WRAPPERS[w].replace("x", s)
    return s


def same(a: Any, b: Any) -> bool:
    """structural equality that also compares the types (True is not 1, Level.HIGH is not 3, exceptions by type + args)"""
    if type(a) is not type(b):
        return False
    if isinstance(a, BaseException):
        return same(list(a.args), list(b.args))
    if isinstance(a, list):
        return len(a) == len(b) and all(same(x, y) for x, y in zip(a, b))
    if isinstance(a, dict):
        return list(a.keys()) == list(b.keys()) and all(same(a[k], b[k]) for k in a)
    return a == b
