"""Support code imported by generated CrossHair harnesses (runs inside the overlay venv).

Everything that touches pynenc's configuration layer runs under NoTracing (cistell/pydantic do not
survive CrossHair's tracing); every cached_property `conf` is warmed once.
"""

from __future__ import annotations

import itertools
import logging
import os
import uuid as _uuid

try:
    from crosshair.tracers import NoTracing, ResumedTracing  # noqa: F401
except Exception:  # pragma: no cover
    import contextlib

    NoTracing = contextlib.nullcontext  # type: ignore
    ResumedTracing = contextlib.nullcontext  # type: ignore

logging.disable(logging.CRITICAL)

WORK = os.environ.get("VERIF_WORK") or os.path.join(os.path.dirname(os.path.dirname(os.path.abspath(__file__))), ".work", "adhoc")
os.makedirs(WORK, exist_ok=True)

_app_counter = itertools.count()
_apps_built = 0
_uuid_counter = itertools.count(1)


def det_uuid4() -> _uuid.UUID:
    """Counter-based stand-in for uuid.uuid4 (replayable paths)."""
    return _uuid.UUID(int=(0xABCDEF << 96) | next(_uuid_counter), version=4)


def install_det_uuid() -> None:
    _uuid.uuid4 = det_uuid4  # type: ignore


def fresh_db_path(tag: str = "db") -> str:
    p = os.path.join(WORK, f"{tag}-{os.getpid()}-{next(_app_counter)}.sqlite")
    for suf in ("", "-wal", "-shm"):
        try:
            os.remove(p + suf)
        except FileNotFoundError:
            pass
    return p


MEM = {
    "orchestrator_cls": "MemOrchestrator",
    "broker_cls": "MemBroker",
    "state_backend_cls": "MemStateBackend",
    "client_data_store_cls": "MemClientDataStore",
    "trigger_cls": "MemTrigger",
}
SQLITE = {
    "orchestrator_cls": "SQLiteOrchestrator",
    "broker_cls": "SQLiteBroker",
    "state_backend_cls": "SQLiteStateBackend",
    "client_data_store_cls": "SQLiteClientDataStore",
    "trigger_cls": "SQLiteTrigger",
}


def mk_app(kind: str, app_id: str | None = None, db_path: str | None = None, **conf):
    """Build a real Pynenc app on the in-memory or the SQLite stack (untraced)."""
    with NoTracing():
        from pynenc import Pynenc

        global _apps_built
        _apps_built += 1
        if _apps_built % 25 == 0:
            import gc
            gc.collect()      # pynenc never closes its SQLite connections explicitly: collect the ones of finished paths
        cv = dict(MEM if kind == "mem" else SQLITE)
        cv["app_id"] = app_id or f"vf{kind}{next(_app_counter)}"
        cv["logging_level"] = "critical"
        cv["serializer_cls"] = conf.pop("serializer_cls", "JsonSerializer")
        if kind == "sqlite":
            cv["sqlite_db_path"] = db_path or fresh_db_path(cv["app_id"])
        cv.update(conf)
        app = Pynenc(config_values=cv)
        warm(app)
        return app


def warm(app) -> None:
    """Touch every lazily-built component and its conf so nothing is constructed under tracing."""
    with NoTracing():
        app.conf
        app.logger
        for comp in (app.orchestrator, app.broker, app.state_backend, app.client_data_store, app.trigger, app.serializer):
            try:
                comp.conf  # type: ignore[attr-defined]
            except Exception:
                pass
        try:
            app.orchestrator.blocking_control
        except Exception:
            pass


def warm_task(task) -> None:
    with NoTracing():
        task.conf
        task.logger
        try:
            task.retriable_exceptions
        except Exception:
            pass


def runner_ctx(runner_id: str, cls: str = "VerifRunner"):
    from pynenc.runner.runner_context import RunnerContext

    with NoTracing():
        return RunnerContext(runner_cls=cls, runner_id=runner_id, pid=1, hostname="h", thread_id=1)


def ctx_with_id(base_ctx, runner_id):
    """RunnerContext whose runner_id may be a symbolic string (built without default factories)."""
    from pynenc.runner.runner_context import RunnerContext

    return RunnerContext(runner_cls="VerifRunner", runner_id=runner_id, pid=1, hostname="h", thread_id=1)


def reset_uuid(start: int = 1) -> None:
    global _uuid_counter
    _uuid_counter = itertools.count(start)
    install_det_uuid()


def new_invocations(app, task, n: int, args_list=None):
    """Create and register n invocations of `task` (untraced), returning their ids."""
    from pynenc.arguments import Arguments
    from pynenc.call import Call
    from pynenc.invocation.dist_invocation import DistributedInvocation

    with NoTracing():
        invs = []
        for i in range(n):
            kw = args_list[i] if args_list else {}
            invs.append(DistributedInvocation.isolated(Call(task, Arguments(kw))))
        app.orchestrator.register_new_invocations(invs)
        return invs


def pick(x, lo: int, hi: int) -> int:
    """Fork a bounded symbolic int into a concrete one by bisection (one path per value, log depth)."""
    while lo < hi:
        mid = (lo + hi) // 2
        if x <= mid:
            hi = mid
        else:
            lo = mid + 1
    return lo


def dump_sqlite(path: str, prefix: str | None = None) -> dict:
    """Every row of every table (optionally only tables whose name starts with `prefix`)."""
    import sqlite3

    conn = sqlite3.connect(path, timeout=10)
    out = {}
    try:
        for (name,) in conn.execute("SELECT name FROM sqlite_master WHERE type='table' ORDER BY name").fetchall():
            if name.startswith("sqlite_"):
                continue
            if prefix is not None and not name.startswith(prefix):
                continue
            out[name] = conn.execute(f'SELECT * FROM "{name}" ORDER BY rowid').fetchall()
    finally:
        conn.close()
    return out


def mem_snapshot(app) -> dict:
    """Curated snapshot of the observable state of an in-memory stack (caches and locks excluded)."""
    o, b, s, t = app.orchestrator, app.broker, app.state_backend, app.trigger
    snap = {
        "queue": list(b._queue),
        "status": {k: (v.status, v.runner_id, v.timestamp) for k, v in o.invocation_status_record.items()},
        "index": {k.value: sorted(v) for k, v in o.status_index.items() if v},
        "retries": dict(o.invocation_retries),
        "purge_q": list(o.invocations_to_purge),
        "hb": dict(o.runner_last_heartbeat),
        "hb_create": dict(o.runner_creation_time),
        "svc": (dict(o.runner_last_service_start), dict(o.runner_last_service_end)),
        "args_index": {str(k): sorted(v) for k, v in o.args_index.items() if v},
        "by_task": {k.key: sorted(v) for k, v in o.task_id_to_inv_id.items() if v},
        "by_call": {k.key: sorted(v) for k, v in o.call_id_to_inv_id.items() if v},
        "inv_call": {k: v.key for k, v in o.inv_id_to_call_id.items()},
        "inv_args": {k: sorted(str(a) for a in v) for k, v in o.invocation_args.items() if v},
        "runner_flags": dict(o.runner_atomic_service_eligible),
        "waiting_for": {k: sorted(v) for k, v in o.blocking_control.waiting_for.items() if v},
        "waited_by": {k: sorted(v) for k, v in o.blocking_control.waited_by.items() if v},
    }
    for name, val in vars(s).items():
        if name in ("app", "invocation_threads", "_runner_context_cache") or callable(val):
            continue
        snap["sb." + name] = repr(val)
    for name, val in vars(t).items():
        if name == "app" or "lock" in name.lower():
            continue
        snap["tr." + name] = repr(val)
    c = app.client_data_store
    for name, val in vars(c).items():
        if name == "app" or "lock" in name.lower() or "cache" in name.lower():
            continue
        snap["cds." + name] = repr(val)
    return snap
