"""Independent specification of the invocation lifecycle, transcribed from
docs/_static/invocation_state_machine.svg (data-edge attributes) and
docs/usage_guide/invocation_status.md (status categories, ownership model).
Deliberately does NOT import pynenc.invocation.status._CONFIG."""

STATUSES = [
    "registered", "concurrency_controlled", "concurrency_controlled_final", "rerouted", "pending",
    "pending_recovery", "running", "running_recovery", "paused", "resumed", "killed", "success",
    "failed", "retry",
]
START = "START"
EDGES = {
    (START, "registered"),
    ("concurrency_controlled", "rerouted"),
    ("killed", "rerouted"),
    ("paused", "killed"), ("paused", "resumed"),
    ("pending", "killed"), ("pending", "pending_recovery"), ("pending", "rerouted"), ("pending", "running"),
    ("pending_recovery", "rerouted"),
    ("registered", "concurrency_controlled"), ("registered", "concurrency_controlled_final"), ("registered", "pending"),
    ("rerouted", "concurrency_controlled"), ("rerouted", "pending"),
    ("resumed", "failed"), ("resumed", "killed"), ("resumed", "paused"), ("resumed", "retry"), ("resumed", "success"),
    ("retry", "pending"),
    ("running", "failed"), ("running", "killed"), ("running", "paused"), ("running", "retry"),
    ("running", "running_recovery"), ("running", "success"),
    ("running_recovery", "rerouted"),
}
FINAL = {"success", "failed", "concurrency_controlled_final"}
AVAILABLE = {"registered", "rerouted", "retry"}
OWNED = {"pending", "running", "paused", "resumed"}          # "only the owning runner can modify them"
RECOVERY = {"pending_recovery", "running_recovery"}           # "override ownership validation"
ACQUIRES = {"pending"}                                        # "REGISTERED -> PENDING acquires ownership"
KEEPS = {"running", "paused", "resumed"}                      # owned statuses entered by the owner keep it


def spec_step(cur, owner, new, rid):
    """cur: status name or None (no record yet). Returns ('T',) transition error, ('O',) ownership
    error, or ('ok', new_status, new_owner)."""
    if ((cur if cur is not None else START), new) not in EDGES:
        return ("T",)
    if cur is not None and new not in RECOVERY:
        if cur in OWNED and rid != owner:
            return ("O",)
        if new in ACQUIRES and not rid:
            return ("O",)
    if new in ACQUIRES:
        return ("ok", new, rid)
    if new in KEEPS:
        return ("ok", new, owner)
    return ("ok", new, None)
