"""strsym — path-forking symbolic interpreter for small string functions (bounded character arrays).

A symbolic string is a Python list of z3 Int terms (code points) of CONCRETE length; the length itself is
quantified by running one query per length up to the bound. The interpreter reads the CURRENT source of the
function, executes its AST, forks on symbolic conditions (collecting a path condition) and returns the list
of (path_condition, result) pairs. Supported (exactly what sanitize_table_prefix-like code needs):
  re.sub(<single character class>, <1-char replacement>, s)   -> per-character ite (class read with re._parser)
  s[0], s[i] (concrete i), truthiness of s (len > 0), `a or b`, `a and b`, `not a`
  c.isdigit()/isalpha()/isalnum() on one character or a slice -> uninterpreted predicates pinned on ASCII
  s[a:b] (concrete bounds), startswith/endswith, replace(c1, c2), `c in s`, x if c else y, +=
  f-strings / + concatenation of symbolic and constant strings
  hashlib.sha256(s.encode()).hexdigest()[:k]                  -> k fresh lowercase-hex characters per distinct input
  if / return / assignment
Anything else raises Unsupported (reported as inconclusive, never as success).
"""

from __future__ import annotations

import ast
import inspect
import re
import textwrap
from typing import Any

import z3


class Unsupported(Exception):
    pass


class SymStr:
    def __init__(self, chars: list):
        self.chars = list(chars)

    def __len__(self):
        return len(self.chars)

    @staticmethod
    def of(v: Any) -> "SymStr":
        if isinstance(v, SymStr):
            return v
        if isinstance(v, str):
            return SymStr([z3.IntVal(ord(c)) for c in v])
        raise Unsupported(f"not a string: {type(v).__name__}")

    def __add__(self, o):
        return SymStr(self.chars + SymStr.of(o).chars)

    def __radd__(self, o):
        return SymStr(SymStr.of(o).chars + self.chars)


class _Hash:
    def __init__(self, it, src: SymStr):
        self.it, self.src = it, src


class _Bytes:
    def __init__(self, s: SymStr):
        self.s = s


class _Fork(Exception):
    def __init__(self, cond):
        self.cond = cond


IS_DIGIT = z3.Function("isdigit", z3.IntSort(), z3.BoolSort())
IS_ALPHA = z3.Function("isalpha", z3.IntSort(), z3.BoolSort())


def ascii_axioms(chars) -> list:
    """Pin the uninterpreted character predicates to their true values on ASCII (elsewhere unconstrained:
    a sound over-approximation for safety claims)."""
    ax = []
    for c in chars:
        ax.append(z3.Implies(z3.And(c >= 0, c < 128), IS_DIGIT(c) == z3.And(c >= 48, c <= 57)))
        ax.append(z3.Implies(z3.And(c >= 0, c < 128), IS_ALPHA(c) == z3.Or(z3.And(c >= 65, c <= 90), z3.And(c >= 97, c <= 122))))
    return ax


def class_pred(pattern: str):
    """pattern must be ONE character class; returns f(c) -> z3 Bool 'c matches the pattern'."""
    import re._parser as sre_parse  # type: ignore
    import re._constants as sre_c  # type: ignore
    parsed = sre_parse.parse(pattern)
    if len(parsed) != 1 or parsed[0][0] is not sre_c.IN:
        raise Unsupported(f"pattern is not a single character class: {pattern!r}")
    items = list(parsed[0][1])
    negate = False
    if items and items[0][0] is sre_c.NEGATE:
        negate = True
        items = items[1:]

    def pred(c):
        alts = []
        for kind, val in items:
            if kind is sre_c.LITERAL:
                alts.append(c == val)
            elif kind is sre_c.RANGE:
                alts.append(z3.And(c >= val[0], c <= val[1]))
            elif kind is sre_c.CATEGORY:
                raise Unsupported("category escapes (\\w, \\d) are locale/Unicode dependent: not modelled")
            else:
                raise Unsupported(f"class item {kind}")
        m = z3.Or(*alts) if alts else z3.BoolVal(False)
        return z3.Not(m) if negate else m
    return pred


class StrInterp:
    def __init__(self):
        self.hash_memo: list[tuple[SymStr, list]] = []
        self.side: list = []
        self._fresh = 0
        self.functions_seen: list[str] = []

    def fresh_hex(self, k: int) -> SymStr:
        out = []
        for _ in range(k):
            self._fresh += 1
            c = z3.Int(f"hx!{self._fresh}")
            self.side.append(z3.Or(z3.And(c >= 48, c <= 57), z3.And(c >= 97, c <= 102)))
            out.append(c)
        return SymStr(out)

    def hexdigest(self, src: SymStr) -> SymStr:
        """64 lowercase hex chars; a function of the input (Ackermann: equal inputs => equal digests)."""
        d = self.fresh_hex(64)
        for (s0, d0) in self.hash_memo:
            if len(s0) == len(src):
                same = z3.And(*[a == b for a, b in zip(s0.chars, src.chars)]) if len(src) else z3.BoolVal(True)
                self.side.append(z3.Implies(same, z3.And(*[a == b for a, b in zip(d0, d.chars)])))
        self.hash_memo.append((src, d.chars))
        return d

    # ------------------------------------------------------------------
    def run(self, fn, *args):
        """Returns [(path_condition_list, result)], exploring both sides of every symbolic branch."""
        src = textwrap.dedent(inspect.getsource(fn))
        fdef = ast.parse(src).body[0]
        qual = f"{fn.__module__}.{fn.__qualname__}"
        if qual not in self.functions_seen:
            self.functions_seen.append(qual)
        params = [a.arg for a in fdef.args.args]
        results = []
        work = [[]]  # list of decision prefixes (list of bools)
        while work:
            decisions = work.pop()
            ex = _Exec(self, fn.__globals__, dict(zip(params, args)), decisions)
            try:
                val = ex.block(fdef.body)
            except _Fork:
                work.append(decisions + [True])
                work.append(decisions + [False])
                continue
            results.append((ex.pc, val))
        return results


class _Ret(Exception):
    def __init__(self, v):
        self.v = v


class _Exec:
    def __init__(self, it: StrInterp, glob, env, decisions):
        self.it, self.glob, self.env = it, glob, env
        self.decisions = list(decisions)
        self.used = 0
        self.pc: list = []

    def decide(self, cond) -> bool:
        if isinstance(cond, bool):
            return cond
        if z3.is_true(cond):
            return True
        if z3.is_false(cond):
            return False
        if self.used >= len(self.decisions):
            raise _Fork(cond)
        d = self.decisions[self.used]
        self.used += 1
        self.pc.append(cond if d else z3.Not(cond))
        return d

    def truth(self, v):
        if isinstance(v, SymStr):
            return len(v) > 0
        if isinstance(v, z3.ExprRef):
            return self.decide(v)
        return bool(v)

    def block(self, stmts):
        try:
            for s in stmts:
                self.stmt(s)
        except _Ret as r:
            return r.v
        return None

    def stmt(self, s):
        if isinstance(s, ast.Expr):
            if not isinstance(s.value, ast.Constant):
                self.expr(s.value)
        elif isinstance(s, ast.Assign):
            v = self.expr(s.value)
            for t in s.targets:
                if not isinstance(t, ast.Name):
                    raise Unsupported("assignment target")
                self.env[t.id] = v
        elif isinstance(s, ast.AugAssign) and isinstance(s.op, ast.Add) and isinstance(s.target, ast.Name):
            self.env[s.target.id] = self.expr(ast.BinOp(left=ast.Name(s.target.id, ast.Load()), op=ast.Add(), right=s.value))
        elif isinstance(s, ast.AnnAssign):
            if s.value is not None:
                self.env[s.target.id] = self.expr(s.value)
        elif isinstance(s, ast.Return):
            raise _Ret(self.expr(s.value) if s.value is not None else None)
        elif isinstance(s, ast.If):
            if self.truth(self.expr(s.test)):
                for x in s.body:
                    self.stmt(x)
            else:
                for x in s.orelse:
                    self.stmt(x)
        elif isinstance(s, ast.Pass):
            pass
        else:
            raise Unsupported(f"statement {type(s).__name__}")

    def expr(self, e):
        if isinstance(e, ast.Constant):
            return e.value
        if isinstance(e, ast.Name):
            if e.id in self.env:
                return self.env[e.id]
            if e.id in self.glob:
                return self.glob[e.id]
            import builtins
            return getattr(builtins, e.id)
        if isinstance(e, ast.JoinedStr):
            out = SymStr([])
            for part in e.values:
                if isinstance(part, ast.Constant):
                    out = out + part.value
                elif isinstance(part, ast.FormattedValue):
                    if part.format_spec is not None or part.conversion != -1:
                        raise Unsupported("format spec")
                    v = self.expr(part.value)
                    if isinstance(v, _Char):
                        v = SymStr([v.c])
                    out = out + (v if isinstance(v, (SymStr, str)) else str(v))
                else:
                    raise Unsupported("fstring part")
            return out
        if isinstance(e, ast.BinOp) and isinstance(e.op, ast.Add):
            a, b = self.expr(e.left), self.expr(e.right)
            a = SymStr([a.c]) if isinstance(a, _Char) else a
            b = SymStr([b.c]) if isinstance(b, _Char) else b
            if isinstance(a, (SymStr, str)) and isinstance(b, (SymStr, str)):
                return SymStr.of(a) + b if isinstance(a, SymStr) or isinstance(b, SymStr) else a + b
            raise Unsupported("+ on non-strings")
        if isinstance(e, ast.BoolOp):
            vals = e.values
            if isinstance(e.op, ast.Or):
                for ve in vals[:-1]:
                    v = self.expr(ve)
                    if self.truth(v):
                        return v
                return self.expr(vals[-1])
            for ve in vals[:-1]:
                v = self.expr(ve)
                if not self.truth(v):
                    return v
            return self.expr(vals[-1])
        if isinstance(e, ast.IfExp):
            return self.expr(e.body) if self.truth(self.expr(e.test)) else self.expr(e.orelse)
        if isinstance(e, ast.UnaryOp) and isinstance(e.op, ast.Not):
            return not self.truth(self.expr(e.operand))
        if isinstance(e, ast.Subscript):
            base = self.expr(e.value)
            if isinstance(e.slice, ast.Slice):
                lo = self.expr(e.slice.lower) if e.slice.lower else None
                hi = self.expr(e.slice.upper) if e.slice.upper else None
                if isinstance(base, SymStr):
                    return SymStr(base.chars[lo:hi])
                return base[lo:hi]
            idx = self.expr(e.slice)
            if isinstance(base, SymStr):
                return _Char(base.chars[idx])
            return base[idx]
        if isinstance(e, ast.Attribute):
            base = self.expr(e.value)
            if isinstance(base, (SymStr, _Char, _Hash, _Bytes)):
                return ("method", base, e.attr)
            return getattr(base, e.attr)
        if isinstance(e, ast.Call):
            fn = self.expr(e.func)
            args = [self.expr(a) for a in e.args]
            if isinstance(fn, tuple) and fn and fn[0] == "method":
                return self.method(fn[1], fn[2], args)
            if fn is re.sub:
                pat, repl, s = args[:3]
                if not isinstance(s, SymStr):
                    return re.sub(pat, repl, s)
                if not (isinstance(repl, str) and len(repl) == 1):
                    raise Unsupported("re.sub replacement must be one literal character")
                pred = class_pred(pat)
                return SymStr([z3.If(pred(c), z3.IntVal(ord(repl)), c) for c in s.chars])
            import hashlib
            if fn in (hashlib.sha256, hashlib.md5, hashlib.sha1):
                if isinstance(args[0], _Bytes):
                    return _Hash(self.it, args[0].s)
                return fn(*args)
            if any(isinstance(a, (SymStr, _Char)) for a in args):
                if fn is len:
                    return len(args[0])
                if fn is str:
                    return args[0]
                raise Unsupported(f"call {fn!r} on symbolic string")
            return fn(*args)
        if isinstance(e, ast.Compare) and len(e.ops) == 1:
            a, b = self.expr(e.left), self.expr(e.comparators[0])
            if isinstance(a, _Char):
                a = SymStr([a.c])
            if isinstance(b, _Char):
                b = SymStr([b.c])
            if isinstance(e.ops[0], (ast.In, ast.NotIn)) and (isinstance(a, SymStr) or isinstance(b, SymStr)):
                A, B = SymStr.of(a), SymStr.of(b)
                if len(A) != 1:
                    raise Unsupported("substring test with a needle longer than one character")
                hit = z3.Or(*[A.chars[0] == c for c in B.chars]) if len(B) else z3.BoolVal(False)
                return hit if isinstance(e.ops[0], ast.In) else z3.Not(hit)
            if isinstance(a, SymStr) or isinstance(b, SymStr):
                A, B = SymStr.of(a), SymStr.of(b)
                eq = z3.BoolVal(False) if len(A) != len(B) else z3.And(*[x == y for x, y in zip(A.chars, B.chars)]) if len(A) else z3.BoolVal(True)
                if isinstance(e.ops[0], ast.Eq):
                    return eq
                if isinstance(e.ops[0], ast.NotEq):
                    return z3.Not(eq)
                raise Unsupported("string ordering")
            import operator as o
            table = {ast.Eq: o.eq, ast.NotEq: o.ne, ast.Lt: o.lt, ast.LtE: o.le, ast.Gt: o.gt, ast.GtE: o.ge}
            return table[type(e.ops[0])](a, b)
        raise Unsupported(f"expression {type(e).__name__}")

    def method(self, base, name, args):
        if isinstance(base, _Char):
            c = base.c
            if name == "isdigit":
                return IS_DIGIT(c)
            if name == "isalpha":
                return IS_ALPHA(c)
            if name == "isalnum":
                return z3.Or(IS_DIGIT(c), IS_ALPHA(c))
            raise Unsupported(f"char method {name}")
        if isinstance(base, SymStr):
            if name == "encode":
                if args and args[0] not in ("utf-8", "utf8"):
                    raise Unsupported("encode with another codec")
                return _Bytes(base)
            if name in ("isdigit", "isalpha", "isalnum"):
                # Python: False for the empty string, otherwise "every character is ..."
                if len(base) == 0:
                    return False
                parts = [self.method(_Char(c), name, args) for c in base.chars]
                return parts[0] if len(parts) == 1 else z3.And(*parts)
            if name in ("startswith", "endswith") and len(args) == 1 and isinstance(args[0], (str, SymStr, _Char)):
                needle = SymStr([args[0].c]) if isinstance(args[0], _Char) else SymStr.of(args[0])
                if len(needle) > len(base):
                    return False
                if len(needle) == 0:
                    return True
                seg = base.chars[:len(needle)] if name == "startswith" else base.chars[len(base) - len(needle):]
                return z3.And(*[x == y for x, y in zip(seg, needle.chars)])
            if name == "replace" and len(args) == 2 and all(isinstance(a, str) and len(a) == 1 for a in args):
                return SymStr([z3.If(c == ord(args[0]), z3.IntVal(ord(args[1])), c) for c in base.chars])
            raise Unsupported(f"str method {name}")
        if isinstance(base, _Hash):
            if name == "hexdigest":
                return self.it.hexdigest(base.src)
            raise Unsupported(f"hash method {name}")
        raise Unsupported(f"method {name}")


class _Char:
    def __init__(self, c):
        self.c = c


def model_str(model, s: SymStr) -> str:
    return "".join(chr(model.eval(c, model_completion=True).as_long()) for c in s.chars)
