"""pysym — a small symbolic interpreter over Python's AST producing z3 terms.

It reads the CURRENT source of a function (inspect.getsource), walks its AST and evaluates it over
values that are either concrete Python objects or z3 terms in a chosen number domain:

  domain 'real'  : Python floats/ints -> z3 Real (exact arithmetic)
  domain 'fp64'  : Python floats/ints -> IEEE-754 double, round-nearest-even (z3 FPSort(11,53))
  domain 'int'   : Python ints -> z3 Int

* `if` / ternary / and / or on symbolic conditions are merged with ite (state merging);
* early `return` becomes a guarded outcome; the function result is an ite-chain;
* calls to functions of the same module (or any pure Python function with source) are inlined
  symbolically when an argument is symbolic, and executed for real when every argument is concrete;
* `a % b` with symbolic operands is abstracted by a fresh variable r with 0 <= r < b (b > 0 assumed and
  asserted as a side constraint), memoised per (a, b) so that two evaluations of the same expression
  share r. This over-approximates the set of residues (every r in [0,b) is attained at a = r).
* builtins max/min/abs/len/float/int/bool on symbolic values are modelled.

Anything else raises Unsupported — the caller reports the obligation as inconclusive (never success).
"""

from __future__ import annotations

import ast
import inspect
import textwrap
from typing import Any, Callable

import z3


class Unsupported(Exception):
    pass


def is_sym(v: Any) -> bool:
    return isinstance(v, z3.ExprRef)


class _Return(Exception):
    pass


class Interp:
    def __init__(self, domain: str = "real"):
        assert domain in ("real", "fp64", "int")
        self.domain = domain
        self.side: list[z3.BoolRef] = []  # side constraints (mod abstraction etc.)
        self._mod_memo: dict[tuple[int, int], z3.ExprRef] = {}
        self._fresh = 0
        self.functions_seen: list[str] = []
        self.fp = z3.FPSort(11, 53)
        self.rm = z3.RNE()

    # ---------------------------------------------------------------- numbers
    def num(self, v: Any) -> z3.ExprRef:
        if is_sym(v):
            return v
        if isinstance(v, bool):
            raise Unsupported("bool used as number")
        if isinstance(v, (int, float)):
            if self.domain == "real":
                if isinstance(v, float):
                    from fractions import Fraction
                    fr = Fraction(v)
                    return z3.RealVal(fr.numerator) / z3.RealVal(fr.denominator)
                return z3.RealVal(v)
            if self.domain == "fp64":
                return z3.FPVal(float(v), self.fp)
            return z3.IntVal(int(v))
        raise Unsupported(f"cannot lift {type(v).__name__} to a number")

    def var(self, name: str) -> z3.ExprRef:
        if self.domain == "real":
            return z3.Real(name)
        if self.domain == "fp64":
            return z3.FP(name, self.fp)
        return z3.Int(name)

    def fresh(self, hint: str) -> z3.ExprRef:
        self._fresh += 1
        return self.var(f"{hint}!{self._fresh}")

    def arith(self, op: ast.operator, a: Any, b: Any) -> Any:
        if not is_sym(a) and not is_sym(b):
            return _concrete_binop(op, a, b)
        A, B = self.num(a), self.num(b)
        fp = self.domain == "fp64"
        if isinstance(op, ast.Add):
            return z3.fpAdd(self.rm, A, B) if fp else A + B
        if isinstance(op, ast.Sub):
            return z3.fpSub(self.rm, A, B) if fp else A - B
        if isinstance(op, ast.Mult):
            return z3.fpMul(self.rm, A, B) if fp else A * B
        if isinstance(op, ast.Div):
            if self.domain == "int":
                raise Unsupported("true division on ints")
            return z3.fpDiv(self.rm, A, B) if fp else A / B
        if isinstance(op, ast.Mod):
            key = (A.get_id(), B.get_id())
            if key not in self._mod_memo:
                r = self.fresh("mod")
                zero = self.num(0)
                self.side.append(self.cmp(ast.LtE(), zero, r))
                self.side.append(self.cmp(ast.Lt(), r, B))
                self.side.append(self.cmp(ast.Lt(), zero, B))
                self._mod_memo[key] = r
            return self._mod_memo[key]
        raise Unsupported(f"operator {type(op).__name__}")

    def cmp(self, op: ast.cmpop, a: Any, b: Any) -> Any:
        if not is_sym(a) and not is_sym(b):
            return _concrete_cmp(op, a, b)
        if isinstance(op, (ast.Is, ast.IsNot)):
            # identity against None/concrete: a symbolic number is never None
            res = False
            return res if isinstance(op, ast.Is) else True
        if z3.is_bool(a) or z3.is_bool(b):
            A = a if is_sym(a) else z3.BoolVal(bool(a))
            B = b if is_sym(b) else z3.BoolVal(bool(b))
            if isinstance(op, ast.Eq):
                return A == B
            if isinstance(op, ast.NotEq):
                return A != B
            raise Unsupported("ordering on bools")
        A, B = self.num(a), self.num(b)
        fp = self.domain == "fp64"
        if isinstance(op, ast.Lt):
            return z3.fpLT(A, B) if fp else A < B
        if isinstance(op, ast.LtE):
            return z3.fpLEQ(A, B) if fp else A <= B
        if isinstance(op, ast.Gt):
            return z3.fpGT(A, B) if fp else A > B
        if isinstance(op, ast.GtE):
            return z3.fpGEQ(A, B) if fp else A >= B
        if isinstance(op, ast.Eq):
            return z3.fpEQ(A, B) if fp else A == B
        if isinstance(op, ast.NotEq):
            return z3.Not(z3.fpEQ(A, B)) if fp else A != B
        raise Unsupported(f"comparison {type(op).__name__}")

    def truth(self, v: Any) -> Any:
        """Python truthiness; returns bool or z3 Bool."""
        if is_sym(v):
            if z3.is_bool(v):
                return v
            return self.cmp(ast.NotEq(), v, 0)
        return bool(v)

    def ite(self, c: Any, a: Any, b: Any) -> Any:
        if not is_sym(c):
            return a if c else b
        if not is_sym(a) and not is_sym(b):
            if a is b or (type(a) is type(b) and a == b):
                return a
        if isinstance(a, tuple) and isinstance(b, tuple) and len(a) == len(b):
            return tuple(self.ite(c, x, y) for x, y in zip(a, b))
        if isinstance(a, bool) or isinstance(b, bool) or (is_sym(a) and z3.is_bool(a)) or (is_sym(b) and z3.is_bool(b)):
            A = a if is_sym(a) else z3.BoolVal(bool(a))
            B = b if is_sym(b) else z3.BoolVal(bool(b))
            return z3.If(c, A, B)
        if a is None or b is None:
            raise Unsupported("merge of None with a value")
        try:
            return z3.If(c, self.num(a), self.num(b))
        except Unsupported:
            raise Unsupported(f"cannot merge {type(a).__name__} and {type(b).__name__}")

    # ---------------------------------------------------------------- calls
    def call(self, fn: Callable, *args: Any, _force: bool = False, **kwargs: Any) -> Any:
        """_force=True: interpret symbolically even when no argument is itself a z3 term (objects carrying terms)."""
        if not _force and not any(is_sym(a) or _has_sym(a) for a in list(args) + list(kwargs.values())):
            return fn(*args, **kwargs)
        try:
            src = textwrap.dedent(inspect.getsource(fn))
        except (OSError, TypeError):
            raise Unsupported(f"no source for {fn!r} with symbolic arguments")
        tree = ast.parse(src)
        fdef = tree.body[0]
        if not isinstance(fdef, ast.FunctionDef):
            raise Unsupported("not a plain function")
        qual = f"{getattr(fn, '__module__', '?')}.{getattr(fn, '__qualname__', fn)}"
        if qual not in self.functions_seen:
            self.functions_seen.append(qual)
        sig = inspect.signature(fn)
        bound = sig.bind(*args, **kwargs)
        bound.apply_defaults()
        env = dict(bound.arguments)
        frame = _Frame(self, fn.__globals__, env)
        frame.block(fdef.body, True)
        return frame.result()


def _has_sym(v: Any) -> bool:
    if isinstance(v, (list, tuple)):
        return any(is_sym(x) or _has_sym(x) for x in v)
    if isinstance(v, dict):
        return any(is_sym(x) or _has_sym(x) for x in v.values())
    return False


def _concrete_binop(op, a, b):
    import operator as o
    table = {ast.Add: o.add, ast.Sub: o.sub, ast.Mult: o.mul, ast.Div: o.truediv, ast.Mod: o.mod,
             ast.FloorDiv: o.floordiv, ast.Pow: o.pow}
    return table[type(op)](a, b)


def _concrete_cmp(op, a, b):
    import operator as o
    table = {ast.Lt: o.lt, ast.LtE: o.le, ast.Gt: o.gt, ast.GtE: o.ge, ast.Eq: o.eq, ast.NotEq: o.ne,
             ast.Is: o.is_, ast.IsNot: o.is_not, ast.In: lambda x, y: x in y, ast.NotIn: lambda x, y: x not in y}
    return table[type(op)](a, b)


class _Frame:
    """One inlined call: environment, guarded return outcomes."""

    def __init__(self, it: Interp, glob: dict, env: dict):
        self.it, self.glob, self.env = it, glob, env
        self.returns: list[tuple[Any, Any]] = []  # (guard, value), guard = bool or z3 Bool
        self.returned: Any = False  # condition under which the frame has already returned

    # ---- helpers
    def _and(self, a, b):
        if a is True:
            return b
        if b is True:
            return a
        if a is False or b is False:
            return False
        return z3.And(a, b)

    def _not(self, a):
        if isinstance(a, bool):
            return not a
        return z3.Not(a)

    def _or(self, a, b):
        if a is False:
            return b
        if b is False:
            return a
        if a is True or b is True:
            return True
        return z3.Or(a, b)

    def result(self) -> Any:
        if not self.returns:
            return None
        # implicit `return None` when some path falls through
        val = None
        first = True
        for guard, v in reversed(self.returns):
            if first:
                val = v
                first = False
                continue
            val = self.it.ite(guard, v, val)
        # a function whose every path returns: the last-outcome default is sound because guards are exhaustive
        return val

    # ---- statements
    def block(self, stmts: list[ast.stmt], live: Any) -> Any:
        """Execute stmts under path condition `live`; returns the path condition after the block
        (False when all paths returned)."""
        for s in stmts:
            if live is False:
                break
            live = self.stmt(s, live)
        return live

    def stmt(self, s: ast.stmt, live: Any) -> Any:
        if isinstance(s, ast.Expr):
            if isinstance(s.value, ast.Constant):
                return live  # docstring
            self.expr(s.value)
            return live
        if isinstance(s, ast.Assign):
            v = self.expr(s.value)
            for t in s.targets:
                self.assign(t, v, live)
            return live
        if isinstance(s, ast.AnnAssign):
            if s.value is not None:
                self.assign(s.target, self.expr(s.value), live)
            return live
        if isinstance(s, ast.AugAssign):
            cur = self.expr(ast.Name(id=s.target.id, ctx=ast.Load())) if isinstance(s.target, ast.Name) else None
            if cur is None and not isinstance(s.target, ast.Name):
                raise Unsupported("augmented assignment to non-name")
            self.assign(s.target, self.it.arith(s.op, cur, self.expr(s.value)), live)
            return live
        if isinstance(s, ast.Return):
            v = self.expr(s.value) if s.value is not None else None
            self.returns.append((live, v))
            return False
        if isinstance(s, ast.If):
            c = self.it.truth(self.expr(s.test))
            if not is_sym(c):
                return self.block(s.body if c else s.orelse, live)
            env0 = dict(self.env)
            live_t = self.block(s.body, self._and(live, c))
            env_t = self.env
            self.env = dict(env0)
            live_f = self.block(s.orelse, self._and(live, self._not(c)))
            env_f = self.env
            merged = {}
            for k in set(env_t) | set(env_f):
                if k in env_t and k in env_f:
                    a, b = env_t[k], env_f[k]
                    if a is b:
                        merged[k] = a
                    elif live_t is False:
                        merged[k] = b
                    elif live_f is False:
                        merged[k] = a
                    else:
                        merged[k] = self.it.ite(c, a, b)
                elif k in env_t:
                    merged[k] = env_t[k]
                else:
                    merged[k] = env_f[k]
            self.env = merged
            return self._or(live_t, live_f)
        if isinstance(s, ast.Pass):
            return live
        if isinstance(s, ast.For):
            it = self.expr(s.iter)
            if is_sym(it):
                raise Unsupported("for over symbolic iterable")
            for item in list(it):
                self.assign(s.target, item, live)
                live = self.block(s.body, live)
                if live is False:
                    break
            return live
        if isinstance(s, ast.Try):
            # only supported when the body runs without raising (concrete sub-calls raise real exceptions)
            try:
                return self.block(s.body, live)
            except Unsupported:
                raise
            except Exception as e:  # concrete exception from a real call inside the body
                for h in s.handlers:
                    et = self.expr(h.type) if h.type is not None else Exception
                    if isinstance(e, et):
                        if h.name:
                            self.env[h.name] = e
                        return self.block(h.body, live)
                raise
        if isinstance(s, ast.Raise):
            raise Unsupported("raise on a symbolic path")
        if isinstance(s, ast.Assert):
            return live
        raise Unsupported(f"statement {type(s).__name__}")

    def assign(self, target: ast.expr, v: Any, live: Any) -> None:
        if isinstance(target, ast.Name):
            self.env[target.id] = v
            return
        if isinstance(target, (ast.Tuple, ast.List)):
            vals = list(v)
            if len(vals) != len(target.elts):
                raise Unsupported("unpack length")
            for t, x in zip(target.elts, vals):
                self.assign(t, x, live)
            return
        raise Unsupported(f"assignment target {type(target).__name__}")

    # ---- expressions
    def expr(self, e: ast.expr) -> Any:
        it = self.it
        if isinstance(e, ast.Constant):
            return e.value
        if isinstance(e, ast.Name):
            if e.id in self.env:
                return self.env[e.id]
            if e.id in self.glob:
                return self.glob[e.id]
            import builtins
            if hasattr(builtins, e.id):
                return getattr(builtins, e.id)
            raise Unsupported(f"unknown name {e.id}")
        if isinstance(e, ast.BinOp):
            return it.arith(e.op, self.expr(e.left), self.expr(e.right))
        if isinstance(e, ast.UnaryOp):
            v = self.expr(e.operand)
            if isinstance(e.op, ast.Not):
                t = it.truth(v)
                return (not t) if not is_sym(t) else z3.Not(t)
            if isinstance(e.op, ast.USub):
                if not is_sym(v):
                    return -v
                return z3.fpNeg(v) if it.domain == "fp64" else -v
            if isinstance(e.op, ast.UAdd):
                return v
            raise Unsupported("unary op")
        if isinstance(e, ast.Compare):
            left = self.expr(e.left)
            acc: Any = True
            for op, right_e in zip(e.ops, e.comparators):
                right = self.expr(right_e)
                c = it.cmp(op, left, right)
                acc = self._and(acc, c) if (is_sym(c) or is_sym(acc)) else (acc and c)
                if acc is False:
                    return False
                left = right
            return acc
        if isinstance(e, ast.BoolOp):
            vals = [self.expr(v) for v in e.values]  # no side effects in the supported subset
            if not any(is_sym(v) for v in vals):
                r = vals[0]
                for v in vals[1:]:
                    r = (r and v) if isinstance(e.op, ast.And) else (r or v)
                return r
            ts = [it.truth(v) for v in vals]
            ts = [t if is_sym(t) else z3.BoolVal(t) for t in ts]
            return z3.And(*ts) if isinstance(e.op, ast.And) else z3.Or(*ts)
        if isinstance(e, ast.IfExp):
            c = it.truth(self.expr(e.test))
            if not is_sym(c):
                return self.expr(e.body if c else e.orelse)
            return it.ite(c, self.expr(e.body), self.expr(e.orelse))
        if isinstance(e, ast.NamedExpr):
            v = self.expr(e.value)
            self.env[e.target.id] = v
            return v
        if isinstance(e, ast.Tuple):
            return tuple(self.expr(x) for x in e.elts)
        if isinstance(e, ast.List):
            return [self.expr(x) for x in e.elts]
        if isinstance(e, ast.Attribute):
            base = self.expr(e.value)
            if is_sym(base):
                raise Unsupported("attribute of symbolic value")
            return getattr(base, e.attr)
        if isinstance(e, ast.Subscript):
            base = self.expr(e.value)
            idx = self.expr(e.slice)
            if is_sym(base) or is_sym(idx):
                raise Unsupported("symbolic subscript")
            return base[idx]
        if isinstance(e, ast.Call):
            fn = self.expr(e.func)
            args = []
            for a in e.args:
                if isinstance(a, ast.Starred):
                    args.extend(self.expr(a.value))
                else:
                    args.append(self.expr(a))
            kwargs = {k.arg: self.expr(k.value) for k in e.keywords if k.arg}
            return self.apply(fn, args, kwargs)
        if isinstance(e, ast.JoinedStr):
            return "<fstring>"
        if isinstance(e, (ast.GeneratorExp, ast.ListComp, ast.SetComp)):
            # evaluate concretely through Python if no symbolic value is involved
            code = compile(ast.Expression(e), "<pysym>", "eval")
            scope = dict(self.glob)
            scope.update(self.env)
            if any(is_sym(v) for v in self.env.values() if not callable(v)):
                names = {n.id for n in ast.walk(e) if isinstance(n, ast.Name)}
                if any(is_sym(self.env.get(n)) for n in names):
                    raise Unsupported("comprehension over symbolic values")
            return eval(code, scope)
        raise Unsupported(f"expression {type(e).__name__}")

    def apply(self, fn: Any, args: list, kwargs: dict) -> Any:
        it = self.it
        symbolic = any(is_sym(a) or _has_sym(a) for a in args + list(kwargs.values()))
        if not symbolic:
            return fn(*args, **kwargs)
        if fn is max or fn is min:
            vals = list(args[0]) if len(args) == 1 else list(args)
            r = vals[0]
            for v in vals[1:]:
                c = it.cmp(ast.Gt() if fn is max else ast.Lt(), v, r)
                r = it.ite(c, v, r) if is_sym(c) else (v if c else r)
            return r
        if fn is abs:
            v = args[0]
            return it.ite(it.cmp(ast.Lt(), v, 0), it.arith(ast.Sub(), 0, v), v)
        if fn is float:
            return args[0]
        if fn is bool:
            return it.truth(args[0])
        if fn is isinstance:
            return False if is_sym(args[0]) and args[1] in (type(None),) else isinstance(args[0], args[1]) if not is_sym(args[0]) else _sym_isinstance(args[0], args[1])
        if inspect.isfunction(fn):
            return it.call(fn, *args, **kwargs)
        if inspect.ismethod(fn) and inspect.isfunction(fn.__func__):
            return it.call(fn.__func__, fn.__self__, *args, **kwargs)
        raise Unsupported(f"call to {fn!r} with symbolic arguments")


def _sym_isinstance(v, t):
    ts = t if isinstance(t, tuple) else (t,)
    if z3.is_bool(v):
        return bool in ts or int in ts
    return float in ts or int in ts


# -------------------------------------------------------------------- solving helpers
def solve(constraints: list, timeout_s: float = 60.0, logic: str | None = None):
    """Returns (verdict, model_or_None, seconds). verdict in {'sat','unsat','unknown'}."""
    import time
    s = z3.Solver() if not logic else z3.SolverFor(logic)
    s.set("timeout", int(timeout_s * 1000))
    for c in constraints:
        s.add(c)
    t0 = time.time()
    r = s.check()
    dt = time.time() - t0
    v = str(r)
    return v, (s.model() if v == "sat" else None), dt, s


def cvc5_check(smt2: str, timeout_s: float = 60.0) -> str:
    """Cross-check an SMT-LIB2 script with the cvc5 wheel; returns 'sat'/'unsat'/'unknown'/'error:...'."""
    try:
        import cvc5
        tm = cvc5.TermManager()
        slv = cvc5.Solver(tm)
        slv.setOption("tlimit-per", str(int(timeout_s * 1000)))
        slv.setOption("produce-models", "false")
        parser = cvc5.InputParser(slv)
        parser.setStringInput(cvc5.InputLanguage.SMT_LIB_2_6, "(set-logic ALL)\n" + smt2, "q")
        sm = parser.getSymbolManager()
        out = []
        while True:
            cmd = parser.nextCommand()
            if cmd.isNull():
                break
            res = cmd.invoke(slv, sm)
            if res:
                out.append(str(res).strip())
        for o in out:
            if o in ("sat", "unsat", "unknown"):
                return o
        return "unknown"
    except Exception as e:  # noqa: BLE001
        return f"error:{type(e).__name__}:{str(e)[:120]}"
