"""Concrete replay of a CrossHair counterexample: call the harness function with the literal
arguments, outside any symbolic tracing. Prints 'REPLAY: REPRODUCED' when the function returns a
falsy value or raises (i.e. the postcondition `_` fails for real), 'REPLAY: HOLDS' otherwise."""

import importlib.util
import json
import os
import sys
import traceback


def main() -> int:
    path, fn_name, payload = sys.argv[1], sys.argv[2], json.loads(sys.argv[3])
    hdir = os.path.dirname(os.path.abspath(path))
    sys.path.insert(0, hdir)
    modname = os.path.splitext(os.path.basename(path))[0]
    spec = importlib.util.spec_from_file_location(modname, path)
    mod = importlib.util.module_from_spec(spec)
    sys.modules[modname] = mod
    spec.loader.exec_module(mod)
    fn = getattr(mod, fn_name)
    try:
        r = fn(*payload["args"], **payload["kwargs"])
    except Exception:
        traceback.print_exc()
        print("REPLAY: REPRODUCED (raised)")
        return 0
    print("return value:", repr(r))
    if hasattr(mod, "LAST_DETAIL"):
        print("detail:", getattr(mod, "LAST_DETAIL"))
    print("REPLAY: REPRODUCED" if not r else "REPLAY: HOLDS")
    return 0


if __name__ == "__main__":
    sys.exit(main())
