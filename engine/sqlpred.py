"""sqlpred — WHERE-clause -> z3 translator for the small SQL subset used by pynenc's recovery scans.

The SQL text is extracted from the CURRENT source of the method (string constants / f-strings inside
conn.execute(...)), the WHERE clause is parsed (AND / OR / NOT / parentheses / comparisons with `?`
parameters / IS [NOT] NULL) and evaluated over a symbolic row: each column is (value term, is_null term).
SQL three-valued logic is modelled for the operators used: a comparison with NULL is not true.
"""

from __future__ import annotations

import ast
import inspect
import re
import textwrap

import z3


class Unsupported(Exception):
    pass


def extract_execute_calls(fn) -> list[tuple[str, list[ast.expr]]]:
    """[(sql text with {placeholders} removed, parameter expressions)] for each conn.execute(sql, (params)) in fn."""
    tree = ast.parse(textwrap.dedent(inspect.getsource(fn)))
    out = []
    for node in ast.walk(tree):
        if isinstance(node, ast.Call) and isinstance(node.func, ast.Attribute) and node.func.attr == "execute" and node.args:
            sql_node = node.args[0]
            if isinstance(sql_node, ast.Constant) and isinstance(sql_node.value, str):
                sql = sql_node.value
            elif isinstance(sql_node, ast.JoinedStr):
                sql = "".join(p.value if isinstance(p, ast.Constant) else "T" for p in sql_node.values)
            else:
                continue
            params = []
            if len(node.args) > 1 and isinstance(node.args[1], ast.Tuple):
                params = list(node.args[1].elts)
            out.append((" ".join(sql.split()), params))
    return out


TOKEN = re.compile(r"\s*(>=|<=|<>|!=|=|<|>|\(|\)|\?|[A-Za-z_][A-Za-z0-9_\.]*|'[^']*'|\d+(?:\.\d+)?)")


def tokenize(s: str) -> list[str]:
    pos, out = 0, []
    s = s.strip()
    while pos < len(s):
        m = TOKEN.match(s, pos)
        if not m:
            raise Unsupported(f"cannot tokenize SQL at: {s[pos:pos+30]!r}")
        out.append(m.group(1))
        pos = m.end()
    return out


def where_clause(sql: str) -> str:
    m = re.search(r"\bWHERE\b(.*?)(?:\bORDER BY\b|\bLIMIT\b|$)", sql, re.I | re.S)
    if not m:
        raise Unsupported("no WHERE clause")
    return m.group(1)


class Pred:
    """Recursive-descent parser/evaluator. cols: name -> (z3 value, z3 Bool is_null). params: list of (value, is_null)."""

    def __init__(self, tokens, cols, params):
        self.t, self.i, self.cols, self.params, self.pi = tokens, 0, cols, params, 0

    def peek(self):
        return self.t[self.i] if self.i < len(self.t) else None

    def eat(self, tok=None):
        cur = self.peek()
        if tok is not None and (cur is None or cur.upper() != tok):
            raise Unsupported(f"expected {tok}, got {cur}")
        self.i += 1
        return cur

    def parse(self):
        r = self.p_or()
        if self.peek() is not None:
            raise Unsupported(f"trailing SQL tokens: {self.t[self.i:]}")
        return r

    def p_or(self):
        r = self.p_and()
        while self.peek() and self.peek().upper() == "OR":
            self.eat()
            r = z3.Or(r, self.p_and())
        return r

    def p_and(self):
        r = self.p_not()
        while self.peek() and self.peek().upper() == "AND":
            self.eat()
            r = z3.And(r, self.p_not())
        return r

    def p_not(self):
        if self.peek() and self.peek().upper() == "NOT":
            self.eat()
            return z3.Not(self.p_not())
        return self.p_atom()

    def operand(self):
        tok = self.eat()
        if tok == "?":
            v = self.params[self.pi]
            self.pi += 1
            return v
        if tok.startswith("'"):
            raise Unsupported("string literal operand")
        if re.fullmatch(r"\d+(\.\d+)?", tok):
            return (z3.RealVal(tok), z3.BoolVal(False))
        if tok in self.cols:
            return self.cols[tok]
        raise Unsupported(f"unknown column {tok}")

    def p_atom(self):
        if self.peek() == "(":
            self.eat()
            r = self.p_or()
            self.eat(")")
            return r
        left = self.operand()
        op = self.eat()
        if op.upper() == "IS":
            neg = False
            if self.peek().upper() == "NOT":
                self.eat()
                neg = True
            self.eat("NULL")
            return z3.Not(left[1]) if neg else left[1]
        right = self.operand()
        lv, ln = left
        rv, rn = right
        both = z3.And(z3.Not(ln), z3.Not(rn))
        if lv.sort() != rv.sort():
            raise Unsupported(f"sort mismatch in comparison {op}")
        cmp = {"=": lv == rv, "<>": lv != rv, "!=": lv != rv, "<": lv < rv, "<=": lv <= rv, ">": lv > rv, ">=": lv >= rv}.get(op)
        if cmp is None:
            raise Unsupported(f"operator {op}")
        return z3.And(both, cmp)


def where_to_z3(sql: str, cols: dict, params: list):
    return Pred(tokenize(where_clause(sql)), cols, params).parse()
