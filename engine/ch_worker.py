"""Run CrossHair on ONE contract-carrying function of a generated harness file.

Usage: python -m engine.ch_worker <harness.py> <function> <per_condition_timeout> [<per_path_timeout>]
Prints one JSON object on the last stdout line:
  {"fn", "state", "message", "num_paths", "cpu_s", "line"}
state is one of CONFIRMED, CANNOT_CONFIRM, PRE_UNSAT, POST_FAIL, POST_ERR, EXEC_ERR,
SYNTAX_ERR, IMPORT_ERR, NO_CONDITIONS, WORKER_ERROR.
No audit wall is engaged (equivalent to --unblock EVERYTHING); harnesses confine all
file activity to their scratch directory.
"""

import collections
import importlib.util
import json
import os
import sys
import time
import traceback


def main() -> int:
    path, fn_name, cond_to = sys.argv[1], sys.argv[2], float(sys.argv[3])
    path_to = float(sys.argv[4]) if len(sys.argv) > 4 else max(10.0, cond_to**0.5)
    out = {"fn": fn_name, "state": "WORKER_ERROR", "message": "", "num_paths": 0}
    t0 = time.process_time()
    try:
        import resource
        soft, hard = resource.getrlimit(resource.RLIMIT_NOFILE)
        resource.setrlimit(resource.RLIMIT_NOFILE, (hard, hard))   # every explored path opens fresh SQLite connections
    except Exception:
        pass
    try:
        from crosshair.core_and_libs import (  # noqa: F401  (registers the std-lib plugins)
            analyze_function,
            run_checkables,
        )
        from crosshair.util import add_to_pypath
        from crosshair.options import AnalysisKind, AnalysisOptionSet

        try:
            from crosshair.main import prefer_pure_python_imports  # type: ignore
        except Exception:  # pragma: no cover
            import contextlib

            prefer_pure_python_imports = contextlib.nullcontext  # type: ignore

        hdir = os.path.dirname(os.path.abspath(path))
        modname = os.path.splitext(os.path.basename(path))[0]
        with add_to_pypath(hdir), prefer_pure_python_imports():
            spec = importlib.util.spec_from_file_location(modname, path)
            assert spec and spec.loader
            mod = importlib.util.module_from_spec(spec)
            sys.modules[modname] = mod
            spec.loader.exec_module(mod)
        fn = getattr(mod, fn_name)
        stats: collections.Counter = collections.Counter()
        options = AnalysisOptionSet(
            analysis_kind=[AnalysisKind.PEP316],
            per_condition_timeout=cond_to,
            per_path_timeout=path_to,
            report_all=True,
            max_uninteresting_iterations=sys.maxsize,
            stats=stats,
        )
        checkables = analyze_function(fn, options)
        if not checkables:
            out["state"] = "NO_CONDITIONS"
        else:
            messages = run_checkables(checkables)
            # worst message wins (MessageType is ordered by severity)
            worst = max(messages, key=lambda m: m.state) if messages else None
            if worst is None:
                out["state"] = "CANNOT_CONFIRM"
                out["message"] = "no message"
            else:
                out["state"] = worst.state.name
                out["message"] = worst.message
                out["line"] = worst.line
        out["num_paths"] = int(stats.get("num_paths", 0))
    except BaseException as e:  # noqa: BLE001
        out["state"] = "WORKER_ERROR"
        out["message"] = "".join(traceback.format_exception_only(type(e), e)).strip()
        out["trace"] = traceback.format_exc()[-3000:]
    out["cpu_s"] = round(time.process_time() - t0, 2)
    sys.stdout.flush()
    print("\n" + json.dumps(out))
    return 0


if __name__ == "__main__":
    sys.exit(main())
