"""coop — real methods rewritten (from their CURRENT source) into steppable generators, driven by a
bounded-preemption scheduler whose preemption points / crash point are symbolic integers.

yieldify(cls_or_module, names): for every named function/method the source is read with
inspect.getsource, rewritten and installed next to the original as `<name>__gen`:
  * `yield ('L', lineno)` before every statement at every nesting level (a preemption point);
  * `with E as v:` -> acquire loop that yields ('B', lineno) while a CoopLock is held by another actor;
  * calls `X.<name>(...)` to other yieldified functions -> `yield from` of their twin (closed call graph);
  * original `yield v` (generator methods) -> `yield ('O', v)`; `for x in X.<gen>(...)` re-dispatches events;
  * with sql=True: `X.execute(...)` / `X.commit()` -> blocking-aware helper: an immediate
    "database is locked" (connections are opened with timeout=0) makes the actor BLOCKED at that
    statement and it retries when rescheduled.
run_schedule(actors, first, slices): bounded-preemption scheduler. The only operations on the symbolic
slice lengths happen in `sym_lt`, under resumed tracing; everything else runs untraced (concretely).
"""

from __future__ import annotations

import ast
import inspect
import sqlite3
import textwrap
import threading as _real_threading
from typing import Any, Callable

try:
    from crosshair.tracers import NoTracing, ResumedTracing, is_tracing
except Exception:  # pragma: no cover
    import contextlib
    NoTracing = contextlib.nullcontext  # type: ignore
    ResumedTracing = contextlib.nullcontext  # type: ignore

    def is_tracing():  # type: ignore
        return False


class HarnessLimit(Exception):
    """The harness (not the code under test) could not model something: never a violation."""


CURRENT: list = [None]  # current actor (set by the scheduler)
KEEPALIVE: list = []  # crashed generators are kept alive so that their `finally:` blocks never run


# ----------------------------------------------------------------------------- locks
class CoopLock:
    def __init__(self, reentrant: bool = False):
        self.owner = None
        self.count = 0
        self.reentrant = reentrant

    def try_acquire(self, who=None) -> bool:
        who = who if who is not None else CURRENT[0]
        if self.owner is None:
            self.owner, self.count = who, 1
            return True
        if self.reentrant and self.owner is who:
            self.count += 1
            return True
        return False

    def acquire(self, blocking=True, timeout=-1):
        if self.try_acquire():
            return True
        if not blocking:
            return False
        raise HarnessLimit("blocking acquire of a held CoopLock inside an atomic (non-yieldified) section")

    def release(self):
        self.count -= 1
        if self.count <= 0:
            self.owner, self.count = None, 0

    def locked(self):
        return self.owner is not None

    def __enter__(self):
        self.acquire()
        return True

    def __exit__(self, *a):
        self.release()


class _Held:
    def __init__(self, lock):
        self.lock = lock

    def __enter__(self):
        return True

    def __exit__(self, *a):
        self.lock.release()


class CoopThreading:
    """Module stand-in: Lock/RLock are cooperative; the rest is the real threading module."""

    def __init__(self, never_block: bool = False):
        self._never = never_block

    def Lock(self):
        return CoopLock(False) if not self._never else _NeverLock()

    def RLock(self):
        return CoopLock(True) if not self._never else _NeverLock()

    def __getattr__(self, n):
        return getattr(_real_threading, n)


class _NeverLock(CoopLock):
    """Canary lock: never blocks anybody (used to prove that the bounds reach the critical window)."""

    def try_acquire(self, who=None):
        return True

    def release(self):
        pass


_REAL_LOCK_TYPES = (type(_real_threading.Lock()), type(_real_threading.RLock()))
_REAL_OWNERS: dict[int, list] = {}     # id(real lock) -> [actor, count, lock]: real locks met by a twin are made cooperative too


class _HeldReal:
    """a real threading lock already acquired (non-blocking) by the twin's acquire loop"""

    def __init__(self, lock):
        self.lock = lock

    def __enter__(self):
        return True

    def __exit__(self, *a):
        ent = _REAL_OWNERS.get(id(self.lock))
        if ent is not None:
            ent[1] -= 1
            if ent[1] <= 0:
                _REAL_OWNERS.pop(id(self.lock), None)
        try:
            self.lock.release()
        except RuntimeError:
            pass


def _coop_try_enter(cm) -> bool:
    if isinstance(cm, CoopLock):
        return cm.try_acquire()
    if isinstance(cm, _REAL_LOCK_TYPES):
        # a lock created outside the stand-in (e.g. at import time): all actors share one OS thread, so ownership is tracked
        # per actor here; a lock held by another (preempted) actor is a cooperative blocking point, never a real wait
        ent = _REAL_OWNERS.get(id(cm))
        me = CURRENT[0]
        if ent is None:
            if not cm.acquire(blocking=False):
                return False
            _REAL_OWNERS[id(cm)] = [me, 1, cm]
            return True
        if ent[0] is me and isinstance(cm, _REAL_LOCK_TYPES[1]):
            cm.acquire(blocking=False)
            ent[1] += 1
            return True
        return False
    return True


def _coop_entered(cm):
    if isinstance(cm, CoopLock):
        return _Held(cm)
    if isinstance(cm, _REAL_LOCK_TYPES):
        return _HeldReal(cm)
    return cm


def release_real_locks() -> None:
    """release real locks still held by actors that never finished (crashed / abandoned generators)"""
    for ent in list(_REAL_OWNERS.values()):
        for _ in range(max(1, ent[1])):
            try:
                ent[2].release()
            except RuntimeError:
                break
    _REAL_OWNERS.clear()


def _coop_call(obj, name, *a, **k):
    g = getattr(obj, name + "__gen", None)
    if g is None:
        return getattr(obj, name)(*a, **k)
    return (yield from g(*a, **k))


def _coop_iter(obj, name, *a, **k):
    """Iterate a (possibly yieldified) generator method, passing scheduling events through."""
    g = getattr(obj, name + "__gen", None)
    if g is None:
        for v in getattr(obj, name)(*a, **k):
            yield ("O", v)
    else:
        yield from g(*a, **k)


def _coop_prop(obj, name):
    """attribute access to a (possibly yieldified) property"""
    g = getattr(type(obj), name + "__gen", None)
    if g is None:
        return getattr(obj, name)
    return (yield from g(obj))


FN_TWINS: dict = {}     # plain module-level function -> its twin (only for helpers that are new w.r.t. the baseline list)


def _coop_fn_call(fn, *a, **k):
    twin = FN_TWINS.get(fn)
    if twin is None:
        return fn(*a, **k)
    return (yield from twin(*a, **k))


_BASELINE = None


def _baseline_defined() -> dict | None:
    """{module: set(qualnames)} of the functions that existed when the checks were built (engine/coop_baseline.json), or None"""
    global _BASELINE
    if _BASELINE is None:
        import json
        import os
        path = os.path.join(os.path.dirname(os.path.abspath(__file__)), "coop_baseline.json")
        try:
            _BASELINE = {k: set(v) for k, v in json.load(open(path))["defined"].items()}
        except Exception:
            _BASELINE = {}
    return _BASELINE or None


def _new_helpers(owner, f) -> tuple[list[str], list]:
    """helpers that `f` calls and that did not exist in the baseline: (method names on `owner`, module-level functions)"""
    base = _baseline_defined()
    if not base:
        return [], []
    try:
        tree = ast.parse(textwrap.dedent(inspect.getsource(f)))
    except Exception:
        return [], []
    meths, fns = [], []
    mod = getattr(f, "__module__", None)
    for node in ast.walk(tree):
        if not isinstance(node, ast.Call):
            continue
        fn = node.func
        if isinstance(fn, ast.Attribute) and isinstance(fn.value, ast.Name) and fn.value.id in ("self", "cls") and inspect.isclass(owner):
            try:
                target = _find(owner, fn.attr)
            except AttributeError:
                continue
            if not inspect.isfunction(target) or inspect.isgeneratorfunction(target):
                continue
            tm = getattr(target, "__module__", "")
            if tm in base and target.__qualname__ not in base[tm] and fn.attr not in meths:
                meths.append(fn.attr)
        elif isinstance(fn, ast.Name):
            target = f.__globals__.get(fn.id)
            if inspect.isfunction(target) and not inspect.isgeneratorfunction(target) and target.__module__ == mod and mod in base \
                    and target.__qualname__ not in base[mod] and target not in fns:
                fns.append(target)
    return meths, fns


def _coop_gen_call(fn, *a, **k):
    """call a function whose result may be a generator (a cooperative task body): drive it as part of this actor"""
    r = fn(*a, **k)
    if inspect.isgenerator(r):
        return (yield from r)
    return r


class ActorLocal:
    """threading.local() stand-in: one namespace per actor (all actors share one OS thread)"""

    def __init__(self):
        object.__setattr__(self, "_d", {})

    def _ns(self):
        return object.__getattribute__(self, "_d").setdefault(id(CURRENT[0]), {})

    def __getattr__(self, n):
        try:
            return self._ns()[n]
        except KeyError:
            raise AttributeError(n)

    def __setattr__(self, n, v):
        self._ns()[n] = v

    def __delattr__(self, n):
        self._ns().pop(n, None)


def _is_locked_error(e: BaseException) -> bool:
    return isinstance(e, sqlite3.OperationalError) and "locked" in str(e)


def _coop_sql(conn, meth, lineno, *a, **k):
    tries = 0
    while True:
        try:
            return getattr(conn, meth)(*a, **k)
        except sqlite3.OperationalError as e:
            if not _is_locked_error(e):
                raise
            tries += 1
            give_up = yield ("B", lineno)
            if give_up:
                raise


# ----------------------------------------------------------------------------- sqlite stand-in
class CoopConn:
    """SQLiteConnection stand-in: timeout=0, no retry/back-off: a lock conflict surfaces immediately."""

    def __init__(self, conn):
        self._conn = conn

    def execute(self, sql, parameters=(), /):
        if sql.strip().upper().startswith("PRAGMA BUSY_TIMEOUT"):
            return self._conn.execute("SELECT 1")
        return self._conn.execute(sql, parameters)

    def __getattr__(self, n):
        return getattr(self._conn, n)

    def __enter__(self):
        self._conn.__enter__()
        return self

    def __exit__(self, et, ev, tb):
        self._conn.__exit__(et, ev, tb)


OPEN_CONNS: list = []  # (actor, weakref to CoopConn): connections are closed by refcount as in production


def _live_conns():
    out = []
    for (a, r) in OPEN_CONNS:
        c = r()
        if c is not None:
            out.append((a, c))
    return out


def coop_sqlite_connection(path):
    import weakref
    conn = sqlite3.connect(str(path), timeout=0, check_same_thread=False)
    conn.execute("PRAGMA journal_mode=WAL")
    conn.execute("PRAGMA synchronous=NORMAL")
    c = CoopConn(conn)
    if len(OPEN_CONNS) > 200:
        OPEN_CONNS[:] = [(a, r) for (a, r) in OPEN_CONNS if r() is not None]
    OPEN_CONNS.append((CURRENT[0], weakref.ref(c)))
    return c


def install_sqlite_standin() -> list[str]:
    import importlib
    patched = []
    import pynenc.util.sqlite_utils as su
    su.create_sqlite_connection = coop_sqlite_connection
    for mn in ("pynenc.orchestrator.sqlite_orchestrator", "pynenc.broker.sqlite_broker",
               "pynenc.state_backend.sqlite_state_backend", "pynenc.trigger.sqlite_trigger",
               "pynenc.client_data_store.sqlite_client_data_store"):
        m = importlib.import_module(mn)
        for attr in ("sqlite_conn", "create_sqlite_connection"):
            if hasattr(m, attr):
                setattr(m, attr, coop_sqlite_connection)
                patched.append(f"{mn}.{attr}")
    return patched


def close_actor_connections(actor) -> None:
    """Process death: open transactions are rolled back, file locks released."""
    for (a, c) in _live_conns():
        if a is actor:
            try:
                c._conn.rollback()
                c._conn.close()
            except Exception:
                pass


def close_all_connections() -> None:
    for (_, c) in _live_conns():
        try:
            c._conn.close()
        except Exception:
            pass
    OPEN_CONNS.clear()


# ----------------------------------------------------------------------------- AST rewriting
class _ExprRewriter(ast.NodeTransformer):
    def __init__(self, names: set[str], gen_names: set[str], sql: bool, prop_names: set[str] | None = None, gen_calls: set[str] | None = None):
        self.names, self.gen_names, self.sql = names, gen_names, sql
        self.prop_names = prop_names or set()
        self.gen_calls = gen_calls or set()
        self.fn_helpers: set[str] = set()

    def visit_Attribute(self, n):
        self.generic_visit(n)
        if isinstance(n.ctx, ast.Load) and n.attr in self.prop_names:
            call = ast.Call(func=ast.Name("__coop_prop", ast.Load()), args=[n.value, ast.Constant(n.attr)], keywords=[])
            return ast.YieldFrom(value=call)
        return n

    # never descend into nested scopes where `yield` is illegal or means something else
    def visit_Lambda(self, n):
        return n

    def visit_ListComp(self, n):
        return n

    def visit_SetComp(self, n):
        return n

    def visit_DictComp(self, n):
        return n

    def visit_GeneratorExp(self, n):
        return n

    def visit_FunctionDef(self, n):
        return n

    def visit_Yield(self, n):
        self.generic_visit(n)
        val = n.value if n.value is not None else ast.Constant(None)
        return ast.Yield(value=ast.Tuple(elts=[ast.Constant("O"), val], ctx=ast.Load()))

    def visit_YieldFrom(self, n):
        v = n.value
        if isinstance(v, ast.Call) and isinstance(v.func, ast.Attribute) and v.func.attr in self.gen_names:
            inner = [self.visit(a) for a in v.args]
            call = ast.Call(func=ast.Name("__coop_iter", ast.Load()),
                            args=[v.func.value, ast.Constant(v.func.attr)] + inner, keywords=v.keywords)
            return ast.YieldFrom(value=call)
        self.generic_visit(n)
        # foreign iterable: wrap items as outputs
        gen = ast.GeneratorExp(
            elt=ast.Tuple(elts=[ast.Constant("O"), ast.Name("__x", ast.Load())], ctx=ast.Load()),
            generators=[ast.comprehension(target=ast.Name("__x", ast.Store()), iter=n.value, ifs=[], is_async=0)])
        return ast.YieldFrom(value=gen)

    def visit_Call(self, n):
        # do not turn the callee of a method call into a property access: visit the pieces separately
        if isinstance(n.func, ast.Attribute):
            n.func.value = self.visit(n.func.value)
            n.args = [self.visit(a) for a in n.args]
            for kw in n.keywords:
                kw.value = self.visit(kw.value)
        else:
            self.generic_visit(n)
        f = n.func
        if isinstance(f, ast.Name) and f.id in self.fn_helpers:
            call = ast.Call(func=ast.Name("__coop_fn_call", ast.Load()), args=[ast.Name(f.id, ast.Load())] + n.args, keywords=n.keywords)
            return ast.YieldFrom(value=call)
        if isinstance(f, ast.Name) and f.id in self.gen_calls:
            call = ast.Call(func=ast.Name("__coop_gen_call", ast.Load()), args=[ast.Name(f.id, ast.Load())] + n.args, keywords=n.keywords)
            return ast.YieldFrom(value=call)
        if isinstance(f, ast.Attribute):
            if f.attr in self.names and f.attr not in self.gen_names:
                call = ast.Call(func=ast.Name("__coop_call", ast.Load()),
                                args=[f.value, ast.Constant(f.attr)] + n.args, keywords=n.keywords)
                return ast.YieldFrom(value=call)
            if self.sql and f.attr in ("execute", "commit"):
                call = ast.Call(func=ast.Name("__coop_sql", ast.Load()),
                                args=[f.value, ast.Constant(f.attr), ast.Constant(getattr(n, "lineno", 0))] + n.args,
                                keywords=n.keywords)
                return ast.YieldFrom(value=call)
        return n


class _Rewriter:
    def __init__(self, names, gen_names, sql, drop_stmt: Callable[[ast.stmt], bool] | None = None, prop_names=None, gen_calls=None):
        self.ex = _ExprRewriter(names, gen_names, sql, prop_names, gen_calls)
        self.gen_names = gen_names
        self.drop = drop_stmt
        self.nested = False
        self.n_points = 0
        self._tmp = 0

    def tmp(self, p):
        self._tmp += 1
        return f"__{p}{self._tmp}"

    def point(self, lineno, kind="L"):
        self.n_points += 1
        return ast.Expr(ast.Yield(ast.Tuple(elts=[ast.Constant(kind), ast.Constant(lineno)], ctx=ast.Load())))

    def body(self, stmts):
        out = []
        for s in stmts:
            if self.drop and self.drop(s):
                continue
            if isinstance(s, ast.Expr) and isinstance(s.value, ast.Constant) and isinstance(s.value.value, str):
                continue  # docstring
            out.append(self.point(s.lineno))
            out.extend(self.stmt(s))
        return out or [ast.Pass()]

    def stmt(self, s):
        if isinstance(s, ast.If):
            s.test = self.ex.visit(s.test)
            s.body = self.body(s.body)
            s.orelse = self.body(s.orelse) if s.orelse else []
            return [s]
        if isinstance(s, ast.While):
            s.test = self.ex.visit(s.test)
            s.body = self.body(s.body)
            s.orelse = self.body(s.orelse) if s.orelse else []
            return [s]
        if isinstance(s, ast.For):
            it = s.iter
            if isinstance(it, ast.Call) and isinstance(it.func, ast.Attribute) and it.func.attr in self.gen_names:
                ev = self.tmp("ev")
                args = [self.ex.visit(a) for a in it.args]
                call = ast.Call(func=ast.Name("__coop_iter", ast.Load()),
                                args=[it.func.value, ast.Constant(it.func.attr)] + args, keywords=it.keywords)
                inner = [
                    ast.If(test=ast.Compare(left=ast.Subscript(ast.Name(ev, ast.Load()), ast.Constant(0), ast.Load()),
                                            ops=[ast.NotEq()], comparators=[ast.Constant("O")]),
                           body=[ast.Expr(ast.Yield(ast.Name(ev, ast.Load()))), ast.Continue()], orelse=[]),
                    ast.Assign(targets=[s.target], value=ast.Subscript(ast.Name(ev, ast.Load()), ast.Constant(1), ast.Load())),
                ] + self.body(s.body)
                return [ast.For(target=ast.Name(ev, ast.Store()), iter=call, body=inner, orelse=[])]
            s.iter = self.ex.visit(s.iter)
            s.body = self.body(s.body)
            s.orelse = self.body(s.orelse) if s.orelse else []
            return [s]
        if isinstance(s, ast.Try):
            s.body = self.body(s.body)
            for h in s.handlers:
                h.body = self.body(h.body)
            s.orelse = self.body(s.orelse) if s.orelse else []
            s.finalbody = self.body(s.finalbody) if s.finalbody else []
            return [s]
        if isinstance(s, ast.With):
            out = []
            new_items = []
            for item in s.items:
                cm = self.tmp("cm")
                out.append(ast.Assign(targets=[ast.Name(cm, ast.Store())], value=self.ex.visit(item.context_expr)))
                out.append(ast.While(
                    test=ast.UnaryOp(ast.Not(), ast.Call(ast.Name("__coop_try_enter", ast.Load()), [ast.Name(cm, ast.Load())], [])),
                    body=[ast.Expr(ast.Yield(ast.Tuple(elts=[ast.Constant("B"), ast.Constant(s.lineno)], ctx=ast.Load())))],
                    orelse=[]))
                new_items.append(ast.withitem(
                    context_expr=ast.Call(ast.Name("__coop_entered", ast.Load()), [ast.Name(cm, ast.Load())], []),
                    optional_vars=item.optional_vars))
            out.append(ast.With(items=new_items, body=self.body(s.body)))
            return out
        if isinstance(s, ast.FunctionDef) and self.nested:
            # a local helper (closure) of the twin becomes a generator function as well; the twin (or another twin) must call it
            # through gen_calls (`yield from __coop_gen_call(name, ...)`), which drives it as part of the actor
            s.body = self.body(s.body)
            s.body.append(ast.If(test=ast.Constant(False), body=[ast.Expr(ast.Yield(ast.Constant(None)))], orelse=[]))
            s.decorator_list = []
            return [s]
        if isinstance(s, (ast.FunctionDef, ast.AsyncFunctionDef, ast.ClassDef)):
            return [s]
        return [self.ex.visit(s)]


def _find(owner, name):
    if inspect.isclass(owner):
        for klass in owner.__mro__:
            if name in klass.__dict__:
                f = klass.__dict__[name]
                return f.__func__ if isinstance(f, (classmethod, staticmethod)) else f
        raise AttributeError(name)
    return getattr(owner, name)


def yieldify(owner, names: list[str], all_names: set[str] | None = None, gen_names: set[str] | None = None,
             sql: bool = False, drop_stmt=None, suffix: str = "__gen", prop_names: set[str] | None = None,
             gen_calls: set[str] | None = None, nested_defs: bool = False) -> dict[str, int]:
    """Install `<name>__gen` twins on `owner` (class or module). Returns yield-point counts.
    prop_names: attribute reads `X.<name>` become `yield from` of the property's twin; gen_calls: calls `name(...)` of module-level
    functions whose result may be a generator (cooperative task bodies) are driven as part of the actor."""
    all_names = set(all_names or names)
    fns = {n: _find(owner, n) for n in names}
    fns = {n: (f.fget if isinstance(f, property) else f) for n, f in fns.items()}
    if gen_names is None:
        gen_names = {n for n, f in fns.items() if inspect.isgeneratorfunction(f)}
    # helpers that did not exist when the checks were built (code extracted into a new method / function by a later change) are
    # rewritten too, otherwise the extracted statements would silently become one atomic step of the simulation
    fn_helpers: dict[str, Any] = {}
    work = list(fns.values())
    seen = set()
    while work:
        f0 = work.pop()
        if id(f0) in seen or not inspect.isfunction(f0):
            continue
        seen.add(id(f0))
        meths, hfns = _new_helpers(owner, f0)
        for m in meths:
            if m not in fns and not hasattr(owner, m + suffix):
                try:
                    fns[m] = _find(owner, m)
                except AttributeError:
                    continue
                all_names.add(m)
                work.append(fns[m])
        for hf in hfns:
            if hf.__name__ not in fn_helpers:
                fn_helpers[hf.__name__] = hf
                work.append(hf)
    for hname, hf in fn_helpers.items():
        if hf not in FN_TWINS:
            fns["\0fn:" + hname] = hf
    counts = {}
    for n, f in fns.items():
        is_fn_helper = n.startswith("\0fn:")
        if is_fn_helper:
            n = n[4:]
        src = textwrap.dedent(inspect.getsource(f))
        tree = ast.parse(src)
        fdef = tree.body[0]
        assert isinstance(fdef, ast.FunctionDef), n
        rw = _Rewriter(all_names, set(gen_names), sql, drop_stmt, prop_names, gen_calls)
        rw.ex.fn_helpers = set(fn_helpers)
        rw.nested = nested_defs
        _, start = inspect.getsourcelines(f)
        ast.increment_lineno(tree, start - 1)
        fdef.body = rw.body(fdef.body)
        # a function without any `yield` of its own must still be a generator
        fdef.body.append(ast.If(test=ast.Constant(False), body=[ast.Expr(ast.Yield(ast.Constant(None)))], orelse=[]))
        fdef.name = n + suffix
        fdef.decorator_list = []
        fdef.returns = None
        for a in ast.walk(fdef.args):
            if isinstance(a, ast.arg):
                a.annotation = None
        ast.fix_missing_locations(tree)
        glob = f.__globals__
        glob.setdefault("__coop_try_enter", _coop_try_enter)
        glob.setdefault("__coop_entered", _coop_entered)
        glob.setdefault("__coop_call", _coop_call)
        glob.setdefault("__coop_iter", _coop_iter)
        glob.setdefault("__coop_sql", _coop_sql)
        glob.setdefault("__coop_prop", _coop_prop)
        glob.setdefault("__coop_gen_call", _coop_gen_call)
        glob.setdefault("__coop_fn_call", _coop_fn_call)
        code = compile(tree, f"<coop:{getattr(f, '__qualname__', n)}>", "exec")
        ns: dict = {}
        exec(code, glob, ns)
        twin = ns[n + suffix]
        if is_fn_helper:
            FN_TWINS[f] = twin
        else:
            setattr(owner, n + suffix, twin)
        counts[n] = rw.n_points
    return counts


# ----------------------------------------------------------------------------- scheduler
def sym_lt(a: int, b) -> bool:
    """a < b where b may be a CrossHair symbolic int: the ONLY place the schedule variables are touched."""
    if isinstance(b, int) and type(b) is int:
        return a < b
    if is_tracing():
        return bool(a < b)
    with ResumedTracing():
        return bool(a < b)


class Actor:
    def __init__(self, name: str, gen):
        self.name, self.gen = name, gen
        self.done = False
        self.crashed = False
        self.result: Any = None
        self.error: BaseException | None = None
        self.outs: list = []
        self.steps = 0
        self.blocked = False
        self.trace: list = []
        self._send = None

    def holds_sqlite_write(self) -> bool:
        """True while one of this actor's connections is inside a write transaction. Such an actor is not preempted:
        other writers would only wait for it and WAL readers see the pre-transaction snapshot either way, so no behaviour
        is lost, and atomic (non-yieldified) sections of other actors never hit a spurious 'database is locked'."""
        for (a, c) in _live_conns():
            if a is self:
                try:
                    if c._conn.in_transaction:
                        return True
                except Exception:
                    pass
        return False

    def step(self) -> str:
        """Advance to the next preemption point. Returns 'L' (a step was taken), 'B' (blocked), 'D' (done)."""
        CURRENT[0] = self
        while True:
            try:
                ev = self.gen.send(self._send) if self._send is not None else next(self.gen)
                self._send = None
            except StopIteration as s:
                self.done, self.result = True, s.value
                return "D"
            except HarnessLimit:
                raise
            except Exception as e:  # the code under test raised
                self.done, self.error = True, e
                return "D"
            if ev is None:
                continue
            if ev[0] == "O":
                self.outs.append(ev[1])
                continue
            if ev[0] == "B":
                self.blocked = True
                return "B"
            self.blocked = False
            self.steps += 1
            self.trace.append(ev[1])
            return "L"


def run_schedule(actors: list[Actor], first, slices: list, crash: tuple | None = None,
                 max_total: int = 20000, quantum=None, stop_when: Callable[[], bool] | None = None,
                 budget_is_deadlock: bool = False) -> dict:
    """Bounded-preemption schedule: run actor `first` for slices[0] steps, switch to the next runnable actor
    for slices[1] steps, ...; after the last slice the remaining actors run to completion without further
    preemption (switching only when one blocks or finishes) - or, with `quantum`, fairly round-robin with at most
    `quantum` steps per turn (needed when actors poll in loops). `actors` may grow while running (stand-in threads).
    crash = (actor_index, k): that actor stops for good after its k-th step (no unwinding).
    Returns {'deadlock': bool, 'schedule': [...]}"""
    def n():
        return len(actors)
    release_real_locks()
    cur = 0
    for i in range(n()):  # first may be symbolic: decide it by comparisons
        if not sym_lt(i, first):
            cur = i
            break
    else:
        cur = n() - 1
    log = []
    total = 0

    def runnable(a):
        return not a.done and not a.crashed

    def check_crash(a_idx):
        if crash is not None and crash[0] == a_idx and not actors[a_idx].crashed:
            if not sym_lt(actors[a_idx].steps, crash[1]):
                a = actors[a_idx]
                a.crashed = True
                KEEPALIVE.append(a.gen)
                close_actor_connections(a)
                return True
        return False

    def next_runnable(after):
        for d in range(1, n() + 1):
            j = (after + d) % n()
            if runnable(actors[j]):
                return j
        return None

    def stopped():
        return stop_when is not None and stop_when()

    for k in slices:
        if stopped():
            break
        if not runnable(actors[cur]):
            nxt = next_runnable(cur)
            if nxt is None:
                break
            cur = nxt
        a = actors[cur]
        taken = 0
        while runnable(a):
            if not sym_lt(taken, k) and not a.holds_sqlite_write():
                break
            if check_crash(cur):
                break
            r = a.step()
            total += 1
            if r == "B":
                break
            if r == "D":
                break
            taken += 1
        log.append((cur, taken))
        nxt = next_runnable(cur)
        if nxt is None:
            break
        cur = nxt
    # completion phase
    stuck_rounds = 0
    while any(runnable(a) for a in actors) and not stopped():
        progressed = False
        for d in range(n()):
            j = (cur + d) % n()
            a = actors[j]
            if not runnable(a):
                continue
            turn = 0
            while runnable(a):
                if quantum is not None and not sym_lt(turn, quantum) and not a.holds_sqlite_write():
                    break
                if check_crash(j):
                    progressed = True
                    break
                r = a.step()
                total += 1
                turn += 1
                if total > max_total:
                    if budget_is_deadlock:
                        CURRENT[0] = None
                        return {"deadlock": True, "schedule": log, "reason": "step budget exhausted"}
                    raise HarnessLimit("schedule exceeded max_total steps")
                if r == "B":
                    break
                progressed = True
                if stopped():
                    break
            if a.done:
                progressed = True
            if stopped():
                break
        if not progressed:
            stuck_rounds += 1
            if stuck_rounds == 1:
                # tell blocked SQL actors to give up: the real code would see 'database is locked' after its timeout
                for a in actors:
                    if runnable(a) and a.blocked:
                        a._send = True
                continue
            CURRENT[0] = None
            return {"deadlock": True, "schedule": log}
        else:
            stuck_rounds = 0
    CURRENT[0] = None
    return {"deadlock": False, "schedule": log}


class CoopFuture:
    """concurrent.futures.Future stand-in: waiting for the result is a cooperative blocking point inside a twin"""

    def __init__(self):
        self._done = False
        self._res = None
        self._exc = None

    def set_result(self, r):
        self._res, self._done = r, True

    def set_exception(self, e):
        self._exc, self._done = e, True

    def done(self):
        return self._done

    def _get(self):
        if self._exc is not None:
            raise self._exc
        return self._res

    def result(self, timeout=None):
        if not self._done:
            raise HarnessLimit("Future.result() would block outside a cooperative twin")
        return self._get()

    def result__gen(self, timeout=None):
        while not self._done:
            yield ("B", "future")
        return self._get()

    def exception(self, timeout=None):
        if not self._done:
            raise HarnessLimit("Future.exception() would block outside a cooperative twin")
        return self._exc
