"""Check context: obligations, verdict bookkeeping, known findings, evidence, exit codes.

Exit codes: 0 ok / 1 unlisted replayed violation / 3 harness error or inconclusive verify obligation.
"""

from __future__ import annotations

import ast
import concurrent.futures as cf
import json
import os
import shutil
import subprocess
import sys
import time
from dataclasses import dataclass, field
from pathlib import Path
from typing import Any, Callable

ROOT = Path(__file__).resolve().parent.parent
PY = str(ROOT / ".venv" / "bin" / "python")
KNOWN_FILE = ROOT / "known_findings.json"

REFUTED_STATES = {"POST_FAIL", "POST_ERR", "EXEC_ERR"}


@dataclass
class Cond:
    """One CrossHair condition = one top-level contract-carrying function in a harness file.

    expect:
      confirm  verify-set obligation: must come back CONFIRMED (else inconclusive -> exit 3;
               refuted -> replay -> VIOLATION or known finding by key)
      refute   reachability twin / mutation canary: must be refuted (else exit 3)
      finding  region of a listed known finding: refuted+replayed -> KNOWN-FINDING line;
               confirmed -> finding no longer reproduces (reported, exit 0)
      hunt     counterexample search only; never counted as discharged
    """

    name: str
    expect: str = "confirm"
    timeout: float = 60.0
    path_timeout: float | None = None
    key: str | None = None  # known-finding key for expect == 'finding'
    keyfn: Callable[[list, dict], str] | None = None  # maps a cex to a finding key
    what: str = ""
    group: str = ""  # obligation group (several split conditions may form one obligation)


@dataclass
class Result:
    cond: Cond
    state: str
    message: str
    num_paths: int
    cpu_s: float
    args: list | None = None
    kwargs: dict | None = None
    replayed: bool | None = None
    replay_out: str = ""
    wall_s: float = 0.0


def load_known() -> list[dict]:
    if KNOWN_FILE.exists():
        return json.loads(KNOWN_FILE.read_text())["findings"]
    return []


def parse_call(message: str) -> tuple[list, dict] | None:
    """Extract the literal arguments from CrossHair's '... when calling f(a, b, k=v) ...'."""
    marker = "when calling "
    i = message.find(marker)
    if i < 0:
        return None
    s = message[i + len(marker):]
    # find the end of the call expression by bracket matching outside string literals
    depth = 0
    j = 0
    in_str: str | None = None
    while j < len(s):
        c = s[j]
        if in_str:
            if c == "\\":
                j += 1
            elif c == in_str:
                in_str = None
        else:
            if c in "'\"":
                in_str = c
            elif c in "([{":
                depth += 1
            elif c in ")]}":
                depth -= 1
                if depth == 0:
                    break
        j += 1
    expr = s[: j + 1]
    try:
        node = ast.parse(expr, mode="eval").body
        assert isinstance(node, ast.Call)
        args = [ast.literal_eval(a) for a in node.args]
        kwargs = {k.arg: ast.literal_eval(k.value) for k in node.keywords}
        return args, kwargs
    except Exception:
        return None


class HarnessError(Exception):
    pass


class Ctx:
    def __init__(self, prop: str, tier: str, seed: int = 0):
        self.prop = prop
        self.tier = tier
        self.seed = seed
        self.t0 = time.time()
        self.work = ROOT / ".work" / f"{prop}-{os.getpid()}"
        if self.work.exists():
            shutil.rmtree(self.work)
        self.work.mkdir(parents=True)
        # VERIF_OUT redirects evidence/replays (used when evaluating seeded changes from a scratch worktree on PYTHONPATH)
        self.out_root = Path(os.environ["VERIF_OUT"]) if os.environ.get("VERIF_OUT") else ROOT
        self.replay_dir = self.out_root / "replays" / prop
        self.known = [k for k in load_known() if k["property"] == prop]
        self.jobs = int(os.environ.get("VERIF_JOBS", "16"))
        self.defer = False
        self._deferred: list = []
        # bookkeeping
        self.obligations: dict[str, dict] = {}  # name -> {ok, detail, kind}
        self.violations: list[dict] = []
        self.known_hits: list[dict] = []
        self.errors: list[str] = []
        self.hunts: list[dict] = []
        self.samples: list[Any] = []
        self.evaluations = 0
        self.nontrivial: set[str] = set()
        self.solver_time = 0.0
        self.functions_encoded: list[str] = []
        self.bounds: dict[str, Any] = {}
        self.stubs: list[str] = []
        self.assumptions: list[str] = []
        self.traces_validated = 0
        self.extra: dict[str, Any] = {}
        self.level = "model_checking"
        self.rule = ""

    # ------------------------------------------------------------------ known findings
    def known_status(self, key: str) -> str | None:
        for k in self.known:
            if k["key"] == key:
                return k["status"]
        return None

    def known_keys(self) -> set[str]:
        return {k["key"] for k in self.known if k["status"] == "known"}

    # ------------------------------------------------------------------ bookkeeping
    def oblige(self, name: str, ok: bool | None, detail: str = "", kind: str = "verify") -> None:
        """ok: True discharged, False violated, None inconclusive."""
        self.obligations[name] = {"ok": ok, "detail": detail[:500], "kind": kind}
        if ok is None and kind == "verify":
            self.errors.append(f"inconclusive obligation {name}: {detail[:300]}")

    def error(self, msg: str) -> None:
        self.errors.append(msg)

    def report_violation(self, key: str, what: str, replay: dict) -> None:
        """A replayed violation: matched against known findings by key."""
        st = self.known_status(key)
        if st == "known":
            if not any(h["key"] == key for h in self.known_hits):
                self.known_hits.append({"key": key, "what": what})
                print(f"KNOWN-FINDING: property={self.prop} {key} {what}", flush=True)
            return
        self.replay_dir.mkdir(parents=True, exist_ok=True)
        safe = "".join(c if c.isalnum() or c in "-_." else "_" for c in key)[:80]
        path = self.replay_dir / f"{safe}.json"
        replay = dict(replay)
        replay.update({"property": self.prop, "key": key, "what": what})
        path.write_text(json.dumps(replay, indent=1, default=str))
        self.violations.append({"key": key, "what": what, "replay": str(path)})
        note = " (was recorded as fixed: it returned)" if st == "fixed" else ""
        print(f"VIOLATION property={self.prop} replay={path}", flush=True)
        print(f"  {key}: {what}{note}", flush=True)

    # ------------------------------------------------------------------ CrossHair batches
    def write_harness(self, name: str, src: str) -> Path:
        p = self.work / f"{name}.py"
        p.write_text(src)
        return p

    def _run_one(self, harness: Path, c: Cond) -> Result:
        t0 = time.time()
        cmd = [PY, "-m", "engine.ch_worker", str(harness), c.name, str(c.timeout)]
        if c.path_timeout:
            cmd.append(str(c.path_timeout))
        env = dict(os.environ)
        env["PYTHONHASHSEED"] = "0"
        env["VERIF_WORK"] = str(self.work)
        try:
            cp = subprocess.run(
                cmd, capture_output=True, text=True, env=env, cwd=str(ROOT),
                timeout=c.timeout * 3 + 120,
            )
            last = cp.stdout.strip().splitlines()[-1] if cp.stdout.strip() else ""
            try:
                o = json.loads(last)
            except Exception:
                o = {"state": "WORKER_ERROR", "message": (cp.stderr or cp.stdout)[-1500:], "num_paths": 0, "cpu_s": 0}
        except subprocess.TimeoutExpired:
            o = {"state": "TIMEOUT", "message": "wall-clock cap", "num_paths": 0, "cpu_s": c.timeout}
        r = Result(c, o["state"], o.get("message", "") + (("\n" + o["trace"]) if o.get("trace") else ""),
                   o.get("num_paths", 0), o.get("cpu_s", 0.0))
        r.wall_s = time.time() - t0
        if r.state in REFUTED_STATES:
            pc = parse_call(r.message)
            if pc:
                r.args, r.kwargs = pc
                r.replayed, r.replay_out = self.replay_concrete(harness, c.name, r.args, r.kwargs)
        return r

    def replay_concrete(self, harness: Path, fn: str, args: list, kwargs: dict) -> tuple[bool, str]:
        """Re-run the harness function on the concrete counterexample OUTSIDE CrossHair."""
        payload = json.dumps({"args": args, "kwargs": kwargs})
        env = dict(os.environ)
        env["PYTHONHASHSEED"] = "0"
        env["VERIF_WORK"] = str(self.work)
        cp = subprocess.run(
            [PY, "-m", "engine.ch_replay", str(harness), fn, payload],
            capture_output=True, text=True, env=env, cwd=str(ROOT), timeout=600,
        )
        out = (cp.stdout + cp.stderr)[-4000:]
        return ("REPLAY: REPRODUCED" in cp.stdout), out

    def ch_batch(self, harness_name: str, src: str, conds: list[Cond]) -> dict[str, Result]:
        only = os.environ.get("VERIF_ONLY")
        if only and not any(harness_name.startswith(x) for x in only.split(",")):
            # development aid: a partial run is never a verdict (exit 3)
            if not any("VERIF_ONLY" in e for e in self.errors):
                self.errors.append("partial run (VERIF_ONLY set): not a verdict")
            return {}
        harness = self.write_harness(harness_name, src)
        results: dict[str, Result] = {}
        if self.defer:
            # all batches of a check share one worker pool (run at flush()): no idle cores while one batch waits for its slowest condition.
            # The dict is filled at flush time; callers that only look results up for evidence samples find them missing, nothing else.
            self._deferred.append((harness, src, list(conds), results))
            return results
        with cf.ThreadPoolExecutor(max_workers=self.jobs) as ex:
            futs = {ex.submit(self._run_one, harness, c): c for c in conds}
            for f in cf.as_completed(futs):
                r = f.result()
                results[r.cond.name] = r
        for c in conds:
            self._judge(harness, results[c.name], src)
        return results

    def flush(self) -> None:
        """run every deferred condition in one pool (longest budgets first), then judge batch by batch in registration order"""
        batches, self._deferred = self._deferred, []
        if not batches:
            return
        jobs = [(h, c, res) for (h, _src, conds, res) in batches for c in conds]
        jobs.sort(key=lambda j: -j[1].timeout)
        with cf.ThreadPoolExecutor(max_workers=self.jobs) as ex:
            futs = {ex.submit(self._run_one, h, c): (c, res) for (h, c, res) in jobs}
            for f in cf.as_completed(futs):
                c, res = futs[f]
                res[c.name] = f.result()
        for (h, src, conds, res) in batches:
            for c in conds:
                self._judge(h, res[c.name], src)

    def _judge(self, harness: Path, r: Result, src: str) -> None:
        c = r.cond
        self.evaluations += r.num_paths
        self.solver_time += r.cpu_s
        oname = f"{harness.stem}.{c.name}"
        info = f"{r.state} paths={r.num_paths} cpu={r.cpu_s}s"
        if c.expect == "confirm":
            if r.state == "CONFIRMED":
                self.oblige(oname, True, info)
                if r.num_paths >= 2:
                    self.nontrivial.add(oname)
            elif r.state in REFUTED_STATES:
                self._cex(harness, r, src, oname)
            else:
                self.oblige(oname, None, f"{info} {r.message[:300]}")
        elif c.expect == "refute":
            if r.state in REFUTED_STATES and r.replayed:
                self.oblige(oname, True, f"refuted as required: {r.message[:160]}", kind="canary")
                self.nontrivial.add(oname)
            elif r.state in REFUTED_STATES:
                self.oblige(oname, None, f"refuted but replay failed: {r.message[:200]} / {r.replay_out[-300:]}", kind="canary")
                self.errors.append(f"twin/canary {oname} refuted but does not replay concretely")
            else:
                self.oblige(oname, None, f"twin/canary NOT refuted: {info} {r.message[:200]}", kind="canary")
                self.errors.append(f"twin/canary {oname} not refuted ({r.state}): vacuous harness or bounds too small")
        elif c.expect == "finding":
            if r.state in REFUTED_STATES:
                if r.replayed:
                    # the key is computed from the replayed counterexample when the harness classifies it: a counterexample in the
                    # region of a known finding that fails for ANOTHER reason gets another key and is reported as a violation
                    key = c.key or oname
                    if c.keyfn:
                        import inspect as _insp
                        key = (c.keyfn(r.args, r.kwargs or {}, r.replay_out) if len(_insp.signature(c.keyfn).parameters) >= 3
                               else c.keyfn(r.args, r.kwargs or {}))
                    self.report_violation(key, (c.what if key == c.key else None) or r.message[:200],
                                          self._replay_record(harness, r, src))
                    self.oblige(oname, False, f"finding reproduced: {r.message[:200]}", kind="finding")
                    self.nontrivial.add(oname)
                else:
                    self.oblige(oname, None, f"cex does not replay: {r.message[:200]}", kind="finding")
                    self.errors.append(f"{oname}: counterexample did not reproduce outside the solver: {r.replay_out[-300:]}")
            elif r.state == "CONFIRMED":
                self.oblige(oname, True, f"finding region now holds ({info})", kind="finding")
                if self.known_status(c.key or "") == "known":
                    print(f"NOTE: known finding {c.key} no longer reproduces (region Confirmed)", flush=True)
            else:
                self.oblige(oname, None, f"{info} {r.message[:200]}", kind="finding")
                if self.known_status(c.key or "") != "known":
                    self.errors.append(f"{oname}: inconclusive on a region that is not a listed known finding")
        elif c.expect == "hunt":
            h = {"name": oname, "state": r.state, "paths": r.num_paths, "cpu_s": r.cpu_s}
            self.hunts.append(h)
            if r.state in REFUTED_STATES:
                self._cex(harness, r, src, oname, hunt=True)

    def _replay_record(self, harness: Path, r: Result, src: str) -> dict:
        return {
            "kind": "crosshair-harness",
            "harness_name": harness.stem,
            "function": r.cond.name,
            "args": r.args,
            "kwargs": r.kwargs,
            "message": r.message[:1000],
            "harness_source": src,
            "how": "./vf replay <this file> re-executes the harness function concretely (outside CrossHair) against /repo",
        }

    def _cex(self, harness: Path, r: Result, src: str, oname: str, hunt: bool = False) -> None:
        c = r.cond
        if r.args is None:
            self.oblige(oname, None, f"refuted, cannot parse cex: {r.message[:300]}")
            self.errors.append(f"{oname}: refuted but counterexample not parseable: {r.message[:300]}")
            return
        if not r.replayed:
            self.oblige(oname, None, f"cex did not replay: {r.message[:200]}")
            self.errors.append(f"{oname}: counterexample did not reproduce outside the solver: {r.message[:200]} :: {r.replay_out[-400:]}")
            return
        key = f"{oname}"
        if c.keyfn:
            import inspect as _insp
            if len(_insp.signature(c.keyfn).parameters) >= 3:
                key = c.keyfn(r.args, r.kwargs or {}, r.replay_out)
            else:
                key = c.keyfn(r.args, r.kwargs or {})
        self.oblige(oname, False, f"violated: {r.message[:300]}", kind="hunt" if hunt else "verify")
        self.report_violation(key, c.what or r.message[:300], self._replay_record(harness, r, src))

    # ------------------------------------------------------------------ generic obligations (SMT etc.)
    def smt_obligation(self, name: str, verdict: str, seconds: float, detail: str = "", nontrivial: bool = True) -> None:
        """verdict: 'unsat' (holds), 'sat' (caller handles cex), 'unknown'."""
        self.evaluations += 1
        self.solver_time += seconds
        if verdict == "unsat":
            self.oblige(name, True, f"unsat {seconds:.2f}s {detail}")
            if nontrivial:
                self.nontrivial.add(name)
        elif verdict == "unknown":
            self.oblige(name, None, f"unknown {seconds:.2f}s {detail}")

    # ------------------------------------------------------------------ finish
    def finish(self) -> int:
        self.flush()
        wall = time.time() - self.t0
        verify = {k: v for k, v in self.obligations.items() if v["kind"] == "verify"}
        discharged = sum(1 for v in verify.values() if v["ok"] is True)
        ev = {
            "property_id": self.prop,
            "tier": self.tier,
            "seed": self.seed,
            "level": self.level,
            "coverage": {
                "evaluations": max(self.evaluations, 0),
                "distinct_nontrivial": len(self.nontrivial),
                "rule": self.rule or (
                    "evaluations = execution paths explored by CrossHair (each decided feasible by z3) plus SMT queries; "
                    "an obligation is non-trivial when its exploration covered >= 2 feasible paths (CrossHair) or its "
                    "reachability twin / witness was satisfiable (SMT); distinct = distinct obligation names"),
                "samples": self.samples[:12] or [{"obligation": k, **v} for k, v in list(self.obligations.items())[:6]],
                "obligations": len(verify),
                "discharged": discharged,
                "canaries_and_twins": sum(1 for v in self.obligations.values() if v["kind"] == "canary"),
                "functions_encoded": self.functions_encoded,
                "bounds": self.bounds,
                "stubs": self.stubs,
                "solver_time_s": round(self.solver_time, 2),
                "hunt": self.hunts,
                "traces_validated_against_impl": self.traces_validated,
                "known_findings_hit": self.known_hits,
                "obligation_table": self.obligations,
                "exhaustive": False,
                **self.extra,
            },
            "assumptions": self.assumptions,
            "wall_s": round(wall, 2),
            "violations": len(self.violations),
            "harness_errors": self.errors,
        }
        evdir = self.out_root / "evidence"
        evdir.mkdir(parents=True, exist_ok=True)
        (evdir / f"{self.prop}.json").write_text(json.dumps(ev, indent=1, default=str))
        if self.tier == "thorough":
            # kept next to the latest-run file so that a later quick run does not erase the record of the deep run
            (evdir / "thorough").mkdir(exist_ok=True)
            (evdir / "thorough" / f"{self.prop}.json").write_text(json.dumps(ev, indent=1, default=str))
        shutil.rmtree(self.work, ignore_errors=True)
        try:
            (ROOT / ".work").rmdir()
        except OSError:
            pass
        print(
            f"[{self.prop}/{self.tier}] obligations={len(verify)} discharged={discharged} "
            f"violations={len(self.violations)} known={len(self.known_hits)} errors={len(self.errors)} "
            f"paths+queries={self.evaluations} solver_cpu={self.solver_time:.0f}s wall={wall:.0f}s",
            flush=True,
        )
        if self.violations:
            return 1
        if self.errors:
            for e in self.errors:
                print(f"HARNESS-ERROR: {e}", flush=True)
            return 3
        return 0
