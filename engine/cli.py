"""./vf check <Cxx> [--tier quick|thorough]   |   ./vf replay <replay.json>"""

import argparse
import importlib
import json
import os
import subprocess
import sys
import tempfile
import traceback
from pathlib import Path

from engine.core import Ctx, PY, ROOT


def cmd_check(a) -> int:
    tier = a.tier or os.environ.get("VERIF_TIER") or "quick"
    seed = int(os.environ.get("VERIF_SEED", "0") or 0)
    ctx = Ctx(a.prop, tier, seed)
    try:
        mod = importlib.import_module(f"props.{a.prop}")
        ctx.defer = os.environ.get("VERIF_SEQUENTIAL_BATCHES") != "1"
        mod.run(ctx)
        ctx.flush()
    except Exception:
        traceback.print_exc()
        ctx.error("property module crashed: " + traceback.format_exc()[-600:])
    return ctx.finish()


def cmd_replay(a) -> int:
    rec = json.loads(Path(a.file).read_text())
    if rec.get("kind") == "crosshair-harness":
        work = ROOT / ".work" / f"replay-{os.getpid()}"
        work.mkdir(parents=True, exist_ok=True)
        try:
            h = work / (rec["harness_name"] + ".py")
            h.write_text(rec["harness_source"])
            env = dict(os.environ, VERIF_WORK=str(work), PYTHONHASHSEED="0")
            cp = subprocess.run(
                [PY, "-m", "engine.ch_replay", str(h), rec["function"],
                 json.dumps({"args": rec["args"], "kwargs": rec.get("kwargs") or {}})],
                env=env, cwd=str(ROOT))
            return cp.returncode
        finally:
            import shutil
            shutil.rmtree(work, ignore_errors=True)
    elif rec.get("kind") == "script":
        cp = subprocess.run([PY, "-c", rec["script"]], cwd=str(ROOT))
        return cp.returncode
    print("unknown replay kind", rec.get("kind"))
    return 3


def main() -> int:
    ap = argparse.ArgumentParser()
    sub = ap.add_subparsers(dest="cmd", required=True)
    c = sub.add_parser("check")
    c.add_argument("prop")
    c.add_argument("--tier", choices=["quick", "thorough"])
    r = sub.add_parser("replay")
    r.add_argument("file")
    a = ap.parse_args()
    if a.cmd == "check":
        return cmd_check(a)
    return cmd_replay(a)


if __name__ == "__main__":
    sys.exit(main())
