"""Real-thread replay of the C02 lock-table race in MemOrchestrator._get_invocation_lock (unrewritten code).
Thread A is parked (sys.settrace line gate) right before `self.locks[invocation_id] = threading.Lock()`,
i.e. after it evaluated `invocation_id not in self.locks`; thread B then creates+takes its own lock, reads the
previous record and is parked before writing; A resumes (overwrites the lock-table entry, enters the critical
section too) and finishes; B finishes.
Exit 1 (REPRODUCED) when both claims of the same REGISTERED invocation succeed."""
import sys, threading, logging
logging.disable(logging.CRITICAL)
from pynenc import Pynenc
from pynenc.invocation.status import InvocationStatus
from pynenc.invocation.dist_invocation import DistributedInvocation
from pynenc.call import Call
from pynenc.arguments import Arguments
import pynenc.orchestrator.mem_orchestrator as mo

app = Pynenc(config_values={"app_id": "c02replay", "logging_level": "critical"})

def body() -> int:
    return 1
body.__module__ = "findings_c02"
sys.modules["findings_c02"] = sys.modules[__name__]
task = app.task(body)
inv = DistributedInvocation.isolated(Call(task, Arguments({})))
app.orchestrator.register_new_invocations([inv])
app.state_backend.wait_for_all_async_operations()
orch = app.orchestrator
iid = inv.invocation_id
orch.locks.clear()

a_parked, b_done = threading.Event(), threading.Event()
src_lines, start = __import__("inspect").getsourcelines(mo.MemOrchestrator._get_invocation_lock)
gate_line = None
for off, l in enumerate(src_lines):
    if "self.locks[invocation_id] =" in l:
        gate_line = start + off
src2, start2 = __import__("inspect").getsourcelines(mo.MemOrchestrator._atomic_status_transition)
gate_b = None
for off, l in enumerate(src2):
    if "return self._interanl_atomic_status_transition(" in l:
        gate_b = start2 + off
a_done = threading.Event()
results = {}

def tracer(frame, event, arg):
    if frame.f_code is mo.MemOrchestrator._get_invocation_lock.__code__:
        def local(frame, event, arg):
            if event == "line" and frame.f_lineno == gate_line and threading.current_thread().name == "A":
                a_parked.set()
                b_done.wait(10)
            return local
        return local
    if frame.f_code is mo.MemOrchestrator._atomic_status_transition.__code__ and threading.current_thread().name == "B":
        def localb(frame, event, arg):
            if event == "line" and frame.f_lineno == gate_b:
                b_done.set()          # B is inside its critical section, about to write
                a_done.wait(10)
            return localb
        return localb
    return None

def claim(name, rid):
    if gate_line is not None:
        sys.settrace(tracer)
    try:
        orch._atomic_status_transition(iid, InvocationStatus.PENDING, rid)
        results[name] = "ok"
    except Exception as e:
        results[name] = type(e).__name__
    finally:
        sys.settrace(None)
        if name == "A":
            a_done.set()

ta = threading.Thread(target=claim, args=("A", "r1"), name="A")
ta.start()
if gate_line is not None:
    a_parked.wait(10)
tb = threading.Thread(target=claim, args=("B", "r2"), name="B")
tb.start(); tb.join(); b_done.set(); a_done.set(); ta.join()
print("gate line:", gate_line, "results:", results, "final:", orch.get_invocation_status_record(iid))
both = results.get("A") == "ok" and results.get("B") == "ok"
print("REPLAY: REPRODUCED (two runners both claimed the same REGISTERED invocation)" if both else "REPLAY: HOLDS")
sys.exit(1 if both else 0)
