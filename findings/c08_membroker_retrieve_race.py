"""Real-thread replay: MemBroker.retrieve_invocation is check-then-pop. Thread A is parked (sys.settrace) after
`if self._queue:` evaluated true and before `popleft()`; thread B retrieves the only message; A resumes.
Exit 1 (REPRODUCED) when A's retrieval raises instead of returning None."""
import sys, threading, logging, inspect
logging.disable(logging.CRITICAL)
from pynenc import Pynenc
import pynenc.broker.mem_broker as mb
app = Pynenc(config_values={"app_id": "c08replay", "logging_level": "critical"})
br = app.broker
br.route_invocation("inv-1")
lines, start = inspect.getsourcelines(mb.MemBroker.retrieve_invocation)
gate = next((start + i for i, l in enumerate(lines) if "popleft()" in l), None)
parked, go = threading.Event(), threading.Event()
res = {}
def tracer(frame, event, arg):
    if frame.f_code is mb.MemBroker.retrieve_invocation.__code__ and threading.current_thread().name == "A":
        def local(frame, event, arg):
            if event == "line" and frame.f_lineno == gate and not parked.is_set():
                parked.set(); go.wait(10)
            return local
        return local
def run(name):
    if name == "A": sys.settrace(tracer)
    try: res[name] = ("ret", br.retrieve_invocation())
    except Exception as e: res[name] = ("raised", repr(e))
    finally: sys.settrace(None)
ta = threading.Thread(target=run, args=("A",), name="A"); ta.start(); parked.wait(5)
tb = threading.Thread(target=run, args=("B",), name="B"); tb.start(); tb.join(); go.set(); ta.join()
print(res)
bad = any(v[0] == "raised" for v in res.values())
print("REPLAY: REPRODUCED (a concurrent retrieval raised on an emptied queue)" if bad else "REPLAY: HOLDS")
sys.exit(1 if bad else 0)
