"""Real ThreadRunner replay of the C11 known finding: a task that waits for a queued sub-task keeps the runner's
stop from completing. One slot, in-memory stack. Exit 1 (REPRODUCED) when run() has not returned 5 s after the stop."""
import sys, threading, time, logging
logging.disable(logging.CRITICAL)
from pynenc import Pynenc
from pynenc.runner.thread_runner import ThreadRunner

app = Pynenc(config_values={"app_id": "c11replay", "logging_level": "critical", "runner_cls": "ThreadRunner", "max_threads": 1,
                            "runner_loop_sleep_time_sec": 0.01, "invocation_wait_results_sleep_time_sec": 0.01})
started = threading.Event()

def child() -> int:
    time.sleep(30)          # keeps the single child busy long enough: the second child stays queued
    return 1

def parent() -> int:
    started.set()
    a = child_t(); b = child_t()
    return a.result + b.result
for f in (child, parent):
    f.__module__ = "findings_c11"
sys.modules["findings_c11"] = sys.modules[__name__]
child_t = app.task(child)
parent_t = app.task(parent)
runner = ThreadRunner(app)
app.runner = runner
t = threading.Thread(target=runner.run, daemon=True)
inv = parent_t()
t.start()
started.wait(10)
time.sleep(0.5)
runner.stop_runner_loop()
t.join(5)
hung = t.is_alive()
print("parent status:", inv.status.value, "| run() returned:", not hung)
print("REPLAY: REPRODUCED (stop did not complete within 5 s)" if hung else "REPLAY: HOLDS")
import os
os._exit(1 if hung else 0)
