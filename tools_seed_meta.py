#!/usr/bin/env python3
"""Writes seeded/<id>/meta.json from the evaluation log and a short hand-written description table."""
import json, os, re, sys
DESC = {
 "C01": ("status_record_transition accepts a same-status request by the current owner (idempotent 'fast path'); SQLite record read carries a datetime", "specific (status, owner, requester) cells: request == current status, requester == stored non-empty owner"),
 "C02": ("get_additional_invocations_to_run yields the invocation even when the PENDING claim was refused (continue lost in a refactor)", "duplicate queue entries or blocking+queue copies of one id AND a lost claim race between the status pre-check and the claim"),
 "C03": ("PersistentProcessRunner worker takes next(iter(get_invocations_to_run())) instead of exhausting the generator: the trailing reroute never runs", "running concurrency with reroute option, a blocked invocation popped before a runnable one in the same poll"),
 "C04": ("SQLite heartbeat upsert gets a WHERE clause that also skips the last_heartbeat refresh when the atomic-service flag would be lowered", "runner first heartbeats with can_run_atomic_service=True, later only with False (parent reports); then the timeout passes"),
 "C05": ("deserialize_exception reads error_data through the raw serializer instead of the client data store", "a non-Pynenc exception whose serialized form reaches min_size_to_cache (externalised)"),
 "C06": ("per-poll memo of busy concurrency slots keyed by the key arguments WITHOUT the task", "two different tasks with identical key argument names/values; a blocked invocation of task A popped before task B's in one poll"),
 "C07": ("MemOrchestrator.filter_by_key_arguments intersects in place on the live index set", "ARGUMENTS/KEYS mode with >= 2 key arguments; a lookup whose pairs each match a different REGISTERED invocation, then a repeat submission"),
 "C08": ("SQLiteBroker.retrieve_invocation peeks (SELECT) before BEGIN IMMEDIATE", "a second retriever between the first one's SELECT and its DELETE"),
 "C09": ("MemBlockingControl.release_waiters keeps an empty waiting_for entry for a released waiter", "B waits on C; C finishes; only then A waits on B: B is not reported as blocking"),
 "C10": ("set_invocation_status writes history from a second, non-atomic read of the status record", "another actor makes the next legal change between the transition and the re-read"),
 "C11": ("ThreadRunner.runner_loop_iteration breaks out of the lazily-claiming generator loop once a stop was requested", "stop request lands after an invocation was claimed (PENDING) and before its thread is started"),
 "C12": ("half-slot fallback window widened to at least 30 s", "margin >= slot AND slot < 30 s (many runners or short cycle)"),
 "C13": ("CronCondition shares one croniter iterator: get_next(start_time=last) re-anchors it before get_prev()", "a last execution on record, poll >= 60 s after the scheduled minute, check window > 60 s, schedule not every minute"),
 "C14": ("MultiThreadRunner._cleanup_dead_processes returns early when no child is alive", "ALL tracked workers dead at the same loop iteration"),
 "C15": ("_maybe_store skips the backend write when the key is in the process-local cache", "another process purges the shared store between two serialisations of equal content; a third process resolves the reference"),
 "C16": ("same slip as C09 seen as a mem/SQLite divergence", "wait declared on a former waiter after its dependency was released"),
 "C17": ("delete_tables_with_prefix switched to GLOB '<prefix>_*' and the Python-side filter dropped", "an app id that begins with another app's full component prefix (embeds its hash), both on one database file"),
 "C18": ("deterministic executors kept in a WeakKeyDictionary keyed by the invocation (equality by id)", "re-execution in the same process while the previous attempt's invocation object is still referenced"),
 "C19": ("sync mode caches results with a None sentinel instead of a flag", "a body returning None whose .result is read twice in sync mode"),
 "C20": ("MemOrchestrator.count_invocations / pagination intersect in place on the live task index", "GET /invocations/?task_id=<existing>&status=<valid> on the in-memory stack with invocations of that task in other statuses"),
}
NOTES = {
 "C20": "the one failing test (test_distributed_cpu_work_performance[SQLite MultiThread JsonPickle]) is timing-based and unrelated to the change (SQLite stack, the change is in the in-memory orchestrator); on the UNCHANGED /repo it failed 2 of 5 runs alone on this machine while other jobs were running",
 "C02": "the failing test passed twice when re-run alone with the change (load-sensitive)", "C05": "the failing performance test passed twice when re-run alone with the change",
 "C06": "the failing test passed twice when re-run alone with the change", "C13": "both failing tests passed twice when re-run alone with the change",
 "C18": "the failing test and the erroring test passed twice when re-run alone with the change",
}
for pid, (what, needs) in DESC.items():
    d = f"seeded/{pid}"
    if not os.path.isdir(d):
        continue
    ev = open(f"{d}/eval.log").read() if os.path.exists(f"{d}/eval.log") else ""
    runs = re.findall(r"check=(\S+) exit=(\d+) wall=(\d+)s violations=(\d+)", ev)
    base = re.search(r"base=(\S+) verif=(\S+)", ev)
    confirm = open(f"/tmp/mut/{pid}.out/confirm.log").read() if os.path.exists(f"/tmp/mut/{pid}.out/confirm.log") else ""
    retest = open(f"/tmp/mut/{pid}.out/retest.log").read() if os.path.exists(f"/tmp/mut/{pid}.out/retest.log") else ""
    old = json.load(open(f"{d}/meta.json")) if os.path.exists(f"{d}/meta.json") else {}
    if not confirm and isinstance(old.get("confirmed_by_me", {}).get("demo_and_suite"), list):
        confirm_lines, retest_lines = old["confirmed_by_me"]["demo_and_suite"], old["confirmed_by_me"].get("failed_tests_rerun_alone_with_change", [])
    else:
        confirm_lines = [l[:200] for l in confirm.strip().splitlines()[-12:]]
        retest_lines = [l[:200] for l in retest.splitlines() if re.search(r"== retest|passed|failed", l)]
    meta = {
        "property": pid, "change": what, "needs_to_manifest": needs,
        "files": ["patch.diff", "demo.py", "notes_from_author.md", "eval.log"],
        "author": "independent sub-agent given only the property record and a scratch worktree",
        "confirmed_by_me": {"demo_and_suite": confirm_lines or "see notes_from_author.md (author's runs)",
                            "failed_tests_rerun_alone_with_change": retest_lines, "note": NOTES.get(pid, "suite green with the change"),
                            "how": "fresh scratch worktree of /repo HEAD, git apply patch.diff: demo.py exits 1 with the change and 0 without; existing suite with the change"},
        "evaluated": {"repo_commit": base.group(1) if base else None, "verif_commit": base.group(2) if base else None,
                      "runs": [{"check": c, "exit": int(e), "wall_s": int(w), "violations": int(v)} for c, e, w, v in runs],
                      "detected": any(int(e) == 1 and int(v) > 0 for c, e, w, v in runs),
                      "how": "./tools_seed_eval.sh (scratch worktree first on PYTHONPATH, VERIF_OUT redirected; /repo untouched)"},
    }
    json.dump(meta, open(f"{d}/meta.json", "w"), indent=1)
    print(pid, meta["evaluated"]["detected"], runs)
