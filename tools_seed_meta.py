#!/usr/bin/env python3
"""Writes seeded/<id>/meta.json from the evaluation log and a short hand-written description table."""
import json, os, re, sys
DESC = {
 "C01": ("status_record_transition accepts a same-status request by the current owner (idempotent 'fast path'); SQLite record read carries a datetime", "specific (status, owner, requester) cells: request == current status, requester == stored non-empty owner"),
 "C02": ("get_additional_invocations_to_run yields the invocation even when the PENDING claim was refused (continue lost in a refactor)", "duplicate queue entries or blocking+queue copies of one id AND a lost claim race between the status pre-check and the claim"),
 "C03": ("PersistentProcessRunner worker takes next(iter(get_invocations_to_run())) instead of exhausting the generator: the trailing reroute never runs", "running concurrency with reroute option, a blocked invocation popped before a runnable one in the same poll"),
 "C04": ("SQLite heartbeat upsert gets a WHERE clause that also skips the last_heartbeat refresh when the atomic-service flag would be lowered", "runner first heartbeats with can_run_atomic_service=True, later only with False (parent reports); then the timeout passes"),
 "C05": ("deserialize_exception reads error_data through the raw serializer instead of the client data store", "a non-Pynenc exception whose serialized form reaches min_size_to_cache (externalised)"),
 "C06": ("per-poll memo of busy concurrency slots keyed by the key arguments WITHOUT the task", "two different tasks with identical key argument names/values; a blocked invocation of task A popped before task B's in one poll"),
 "C07": ("MemOrchestrator.filter_by_key_arguments intersects in place on the live index set", "ARGUMENTS/KEYS mode with >= 2 key arguments; a lookup whose pairs each match a different REGISTERED invocation, then a repeat submission"),
 "C08": ("SQLiteBroker.retrieve_invocation peeks (SELECT) before BEGIN IMMEDIATE", "a second retriever between the first one's SELECT and its DELETE"),
 "C09": ("MemBlockingControl.release_waiters keeps an empty waiting_for entry for a released waiter", "B waits on C; C finishes; only then A waits on B: B is not reported as blocking"),
 "C10": ("set_invocation_status writes history from a second, non-atomic read of the status record", "another actor makes the next legal change between the transition and the re-read"),
 "C11": ("ThreadRunner.runner_loop_iteration breaks out of the lazily-claiming generator loop once a stop was requested", "stop request lands after an invocation was claimed (PENDING) and before its thread is started"),
 "C12": ("half-slot fallback window widened to at least 30 s", "margin >= slot AND slot < 30 s (many runners or short cycle)"),
 "C13": ("CronCondition shares one croniter iterator: get_next(start_time=last) re-anchors it before get_prev()", "a last execution on record, poll >= 60 s after the scheduled minute, check window > 60 s, schedule not every minute"),
 "C14": ("MultiThreadRunner._cleanup_dead_processes returns early when no child is alive", "ALL tracked workers dead at the same loop iteration"),
 "C15": ("_maybe_store skips the backend write when the key is in the process-local cache", "another process purges the shared store between two serialisations of equal content; a third process resolves the reference"),
 "C16": ("same slip as C09 seen as a mem/SQLite divergence", "wait declared on a former waiter after its dependency was released"),
 "C17": ("delete_tables_with_prefix switched to GLOB '<prefix>_*' and the Python-side filter dropped", "an app id that begins with another app's full component prefix (embeds its hash), both on one database file"),
 "C18": ("deterministic executors kept in a WeakKeyDictionary keyed by the invocation (equality by id)", "re-execution in the same process while the previous attempt's invocation object is still referenced"),
 "C19": ("sync mode caches results with a None sentinel instead of a flag", "a body returning None whose .result is read twice in sync mode"),
 "C20": ("MemOrchestrator.count_invocations / pagination intersect in place on the live task index", "GET /invocations/?task_id=<existing>&status=<valid> on the in-memory stack with invocations of that task in other statuses"),
}
NOTES = {
 "C20": "the one failing test (test_distributed_cpu_work_performance[SQLite MultiThread JsonPickle]) is timing-based and unrelated to the change (SQLite stack, the change is in the in-memory orchestrator); on the UNCHANGED /repo it failed 2 of 5 runs alone on this machine while other jobs were running",
 "C02": "the failing test passed twice when re-run alone with the change (load-sensitive)", "C05": "the failing performance test passed twice when re-run alone with the change",
 "C06": "the failing test passed twice when re-run alone with the change", "C13": "both failing tests passed twice when re-run alone with the change",
 "C18": "the failing test and the erroring test passed twice when re-run alone with the change",
}

R2 = {
 "C01-2": ("validate_ownership skips the owner comparison for a requester without a runner id", "status PENDING/RUNNING/PAUSED/RESUMED with a stored owner, a valid edge, requester id None or ''"),
 "C02-2": ("MemOrchestrator._atomic_status_transition pops its lock-table entry in a finally block", "claim by A preempted after fetching the lock; B claims, releases (RETRY) and claims again through a fresh lock; 2 preemptions"),
 "C03-2": ("BaseRunner._kill_and_reroute writes REROUTED for a still-PENDING invocation without queueing it", "graceful stop between the claim (PENDING) and the RUNNING write"),
 "C04-2": ("try/except around the recovery transition wraps the whole scan loop", "a recovery scan with >= 2 invocations, an owner moves one of them between scan and transition, another stuck one later in scan order"),
 "C05-2": ("_set_result deletes a stored exception and _set_exception deletes a stored result", "a displaced (recovered) worker finishing its body after the winner with the other outcome kind"),
 "C06-2": ("MemOrchestrator.filter_by_key_arguments intersects in place (rewritten single pass)", "ARGUMENTS/KEYS with >= 2 arguments; X RUNNING, Y (same first argument) polled, then Z == X polled"),
 "C07-2": ("route_call treats Python-equal kwargs as the same call under raise-on-difference", "non-key values 1 / True / 1.0 with an equal key still REGISTERED"),
 "C08-2": ("SQLiteBroker.route_invocations batch insert stamps created_at in Unix seconds (single routing: julianday)", "a history mixing batch and single routing with a batch message still queued"),
 "C09-2": ("SQLiteBlockingControl.get_blocking_invocations drops DISTINCT", "two waiters on one unfinished invocation and a limit smaller than the number of edges"),
 "C10-2": ("InvocationHistory constructed inside the background writer thread", "writers of one invocation running late / out of order"),
 "C11-2": ("ThreadRunner._on_stop reroutes every alive thread before the first join", "stop while a task waits for a sub-task that is RUNNING in the same runner"),
 "C12-2": ("calculate_runner_position = number of runners created strictly earlier", "two active runners with identical creation_time"),
 "C13-2": ("occurrence cleared once an OR/single trigger consumed it although an AND trigger still needs it", "a condition shared by a single/OR trigger and an AND trigger; occurrences arriving in different iterations"),
 "C14-2": ("ProcessRunner: get_active_child_runner_ids returns all tracked children + _reclaim_available_slots skips the dead scan below capacity", "a worker dying mid-invocation while the pool is below max_parallel_slots, further loop iterations"),
 "C15-2": ("JsonSerializer._reconstruct_from_json does not descend into a list nested directly in a list", "Enum / exception / JsonSerializable object inside a list inside a list, JsonSerializer"),
 "C16-2": ("SQLiteTrigger claims use INSERT OR IGNORE", "claim, expiry, re-claim, then another claim before the new expiration"),
 "C17-2": ("sanitize_table_prefix re-binds a digit-leading id before hashing", "ids D and '_' + D with D starting with a digit, one database file"),
 "C18-2": ("DeterministicExecutor.execute_task: process-wide in-flight launch registry keyed without the workflow id", "two workflows inside execute_task for the identical sub-call at the same time in one process"),
 "C19-2": ("set_invocation_retry re-queues the invocation before incrementing the retry counter (re-based onto the C19 repair)", "a second worker runs the re-queued invocation between route and increment"),
 "C20-2": ("pynmon queue_view skips and never re-routes a second copy of an id it already popped", "the same id queued more than once and a limit covering the whole queue"),
}
R3 = {
 "C03-3": ("recovery tasks merged into one helper that returns on a lost race (nothing already taken is re-queued)", "recovery scan with >= 2 invocations, the owner moves a later one between scan and transition"),
 "C04-3": ("BaseRunner._report_child_runner_heartbeats throttled to once per atomic-service check interval", "parent/child runner topology, dead-runner timeout shorter than the check interval, several loop iterations"),
 "C06-3": ("get_blocking_invocations_to_run checks all candidates first and claims them afterwards", "two same-key invocations both awaited by a parent, one poll with >= 2 slots, two worker threads starting at once"),
 "C08-3": ("SQLiteBroker.count_invocations served from a per-instance cache for 0.2 s", "two broker instances on one database: A counts, B routes/retrieves, A counts again"),
 "C09-3": ("release_waiters moved from set_invocation_status to the result/exception setters (CONCURRENCY_CONTROLLED_FINAL never releases)", "an awaited invocation finalised by concurrency control whose waiter is itself awaited and becomes runnable again"),
 "C13-3": ("report_tasks_status records only the first invocation of each task in a batch", "a parallelize batch (status REGISTERED reported for several invocations) and a trigger on that status"),
 "C14-3": ("MultiThreadRunner scale-up compares the queue with max(current, min_processes) (enforce off)", "deaths that take the pool below min_processes with a queue not larger than min_processes"),
 "C16-3": ("SQLiteStateBackend.iter_history_in_timerange pages by 'timestamp > last' instead of OFFSET", "history entries sharing one timestamp across a page boundary"),
}
R3.update({
 "C01-3": ("MemOrchestrator._atomic_status_transition reads the status record before taking the invocation lock", "two requests for one invocation in flight at once, the second reading while the first is between read and write"),
 "C02-3": ("SQLite transition rewritten as an optimistic compare-and-set on the status column only", "owner's request in flight while recovery re-queues the invocation and another runner claims it (same status, other owner)"),
 "C05-3": ("JSON exception envelopes rebuilt with `args or [message]`", "JsonSerializer and an exception raised without arguments"),
 "C07-3": ("SQLiteOrchestrator.get_existing_invocations as one grouped sub-query (key IN ... AND value IN ...)", "two key arguments whose values overlap across argument names"),
 "C10-3": ("add_histories starts writer closures that capture the loop variable", "a parallelize batch and writer threads that run late"),
 "C11-3": ("_kill_and_reroute falls through to reroute_invocations after a refused kill", "a stop while a retrying task's invocation is in RETRY and another in-flight invocation follows in the thread table"),
 "C12-3": ("last runner's window ends at the cycle end (margin not subtracted)", "margin > 0 that fits into a slot; the last seconds of a cycle"),
 "C15-3": ("inspect.signature cached by module + qualified name", "two function objects with one qualified name and different defaults in one process"),
 "C17-3": ("MemStateBackend.purge clears the process-wide app-info registry", "two in-memory apps in one process, one purged, the other's app info read"),
 "C18-3": ("one shared random.Random reseeded for every value", "two workflows calling wf.random() concurrently with a thread switch between seed() and random()"),
 "C19-3": ("prepare_arguments builds the merged kwargs once for the whole group", "parallelize(..., common_args=...) with per-call dictionaries of different key sets, sync mode"),
 "C20-3": ("pynmon format_serialized_arguments truncates long values in place", "in-memory state backend, an inline argument longer than 500 characters, GET of that call's detail page"),
})
ALL = {**{k: v for k, v in DESC.items()}, **R2, **R3}
NOTES.update({k: "suite with the change: only timing-sensitive tests failed (test_parallel_performance / test_distributed_cpu_work_performance / test_runner_reroutes_on_real_os_signal / "
                 "test_task_execution[SQLite MultiThread] / pynmon server start-up), each passed when re-run alone; they fail intermittently on the unchanged tree under load as well"
              for k in ("C01-2", "C02-2", "C06-2", "C07-2", "C15-2", "C17-2", "C18-2", "C20-2", "C04-3", "C20-3")})
import glob
for d in sorted(glob.glob("seeded/*/")):
    name = d.rstrip("/").split("/")[-1]
    pid = name[:3]
    rnd = {"": 1, "-2": 2, "-3": 3}.get(name[3:], 1)
    what, needs = ALL.get(name, ("see notes_from_author.md", "see notes_from_author.md"))
    ev = open(f"{d}eval.log").read() if os.path.exists(f"{d}eval.log") else ""
    runs = re.findall(r"check=(\S+) exit=(\d+) wall=(\d+)s violations=(\d+)", ev)
    base = re.search(r"base=(\S+) verif=(\S+)", ev)
    src = {1: "/tmp/mut", 2: "/tmp/mut2", 3: "/tmp/mut3"}[rnd] + f"/{pid}.out"
    old = json.load(open(f"{d}meta.json")) if os.path.exists(f"{d}meta.json") else {}
    def lines(path, pat):
        if not os.path.exists(path):
            return []
        return [l.strip()[:200] for l in open(path, errors="replace").read().splitlines() if re.search(pat, l)]
    confirm = lines(f"{src}/confirm.log", r"^== |^exit=|patch applied|^FAILED|^ERROR pynenc|\d+ passed|\d+ failed") or lines(f"{d}confirm.log", r"^== |^exit=|patch applied|^FAILED|^ERROR pynenc|\d+ passed|\d+ failed")
    extra = lines(f"{src}/retest.log", r"== retest|\d+ passed|\d+ failed") + lines(f"{src}/resuite.log", r"^== |^FAILED|^ERROR pynenc|\d+ passed|\d+ failed")
    if not confirm and isinstance(old.get("confirmed_by_me", {}).get("demo_and_suite"), list):
        confirm = old["confirmed_by_me"]["demo_and_suite"]; extra = extra or old["confirmed_by_me"].get("failed_tests_rerun_or_suite_rerun", [])
    meta = {
        "property": pid, "round": rnd, "change": what, "needs_to_manifest": needs,
        "files": sorted(os.listdir(d)),
        "author": "independent sub-agent given only the property record and a scratch worktree" + ("" if rnd == 1 else " (and a one-line description of the earlier seeded change(s), to avoid duplicates)"),
        "confirmed_by_me": {"demo_and_suite": confirm or "see notes_from_author.md (author's runs)",
                            "failed_tests_rerun_or_suite_rerun": extra, "note": NOTES.get(name, ""),
                            "how": "fresh scratch worktree of /repo HEAD, git apply patch.diff: demo.py exits 1 with the change and 0 without; existing suite with the change; tests that failed were re-run alone (timing-sensitive tests fail under load on the unchanged code too)"},
        "evaluated": {"repo_commit": base.group(1) if base else None, "verif_commit": base.group(2) if base else None,
                      "runs": [{"check": c, "exit": int(e), "wall_s": int(w), "violations": int(v)} for c, e, w, v in runs],
                      "detected": any(int(e) == 1 and int(v) > 0 for c, e, w, v in runs),
                      "how": "./tools_seed_eval.sh (scratch worktree first on PYTHONPATH, VERIF_OUT redirected; /repo untouched)"},
    }
    json.dump(meta, open(f"{d}meta.json", "w"), indent=1)
    print(name, meta["evaluated"]["detected"], runs)
