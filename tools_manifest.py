#!/usr/bin/env python3
"""Regenerates MANIFEST.json from the table below (kept in one place so it is always valid)."""
import json, sys
CHECKS = {
 "C01": dict(cat="model_checking", tech="CrossHair symbolic execution (z3) of the real transition function and both orchestrators' set_invocation_status vs an independent table; 1-step induction from arbitrary (status, owner)",
   text="Bounded symbolic check: for every current status (15 incl. none), every owner/requester string up to the length bound (any Unicode) and every requested status, the real status_record_transition and the real set_invocation_status of MemOrchestrator and SQLiteOrchestrator agree with an independent specification table; refused requests leave record/index/row untouched; 2-step (thorough 3-step) sequences cross-check the induction. Every verify obligation must come back 'Confirmed over all paths'.",
   note="Bounds: strings len<=1 quick / <=2 thorough; SQLite dims finite (4 owners x 3 requesters). Stubs: sync history threads, recorder for add_history/trigger in the symbolic-string variant, counter clock. Trusted: CrossHair 0.0.110 + z3, the spec table transcribed from the docs.", ref="3/C01"),
}
CHECKS.update({
 "C02": dict(cat="model_checking", tech="real transition/poll methods AST-rewritten into steppable generators; preemption points, first actor and scenario data are symbolic ints decided by CrossHair/z3; linearisability oracle from the independent status table",
   text="Bounded symbolic schedule exploration on the real code: two concurrent claims of one invocation (both backends, every available start status) are linearisable and never both succeed; two pollers running the real get_invocations_to_run over queues with duplicate ids / blocking-priority entries never receive the same invocation and never raise; two holders of one invocation object running the real run twins execute the body at most once. Canaries (a lock that never blocks; BEGIN IMMEDIATE removed from the AST) must be refuted within the same bounds.",
   note="Bounds: 2 actors; quick: 2 preemptions (claims) / 1 preemption (pollers), thorough one more; slice lengths cover all yield points. Granularity: source line (mem) / SQL statement (SQLite, real sqlite3 with timeout=0). Stubs: CoopLock for threading locks, sync history threads, counter clock.", ref="3/C02"),
 "C08": dict(cat="model_checking", tech="CrossHair/z3-decided op-code sequences on the real MemBroker and SQLiteBroker vs a list model",
   text="For every op sequence up to the length bound over 9 op letters (route single/batch with repeats, retrieve, count, purge) both real brokers agree with a FIFO list model after every op, and draining returns exactly the routed-but-not-retrieved messages in order.",
   note="Bounds: length<=4 quick, <=5 thorough; 3 ids. After the solver decides the op codes the real methods run concretely. Same-millisecond ordering on SQLite is observed, not controlled.", ref="3/C08"),
 "C09": dict(cat="model_checking", tech="CrossHair/z3-decided histories + inductive step from an arbitrary symbolic edge relation on the real blocking-control implementations vs a reference wait graph",
   text="For all histories up to the bound of wait declarations, claims and completions over 3 ids, the blocking set reported by both real implementations equals the reference definition (for limits 1, 2 and 10) and nothing stays recorded as waiting on a finished id; on the in-memory structure an inductive step from every 3-id edge relation covers histories of any length.",
   note="Bounds: 3 ids, histories<=3 quick / 4 thorough, 512 pre-states x 15 ops. Part 2: blocking-first claim and slot accounting (unit level). Part 3: simulation of 6 call-tree shapes on the real ThreadRunner (1-2 slots) with symbolic preemption points and fair quantum: every tree completes; a runner whose waiting threads keep their slot is reported as a deadlock.", ref="3/C09"),
 "C12": dict(cat="model_checking", tech="AST-to-SMT translation (pysym) of the current source of calculate_time_slot/is_runner_in_time_slot/can_run_atomic_service; z3 over Reals and over IEEE-754 doubles (QF_FP), cvc5 cross-check",
   text="For each runner count n in the bound and all position pairs, the solver shows (unsat) that no instant authorises two runners, windows are non-empty and inside the cycle, consecutive windows are separated by the margin when it fits (exact arithmetic), and authorisation coincides with the documented window; the disjointness and non-emptiness claims are also decided in double-precision arithmetic. Every sat model is replayed on the real functions.",
   note="Bounds: real n<=8 quick/16 thorough; fp64 n<=4 quick/8 thorough, I in [0.001,1e5] min, margin in [0,1e5]. t mod cycle is abstracted by its exact image [0,cycle). Translator validated against the real function on a concrete grid each run.", ref="3/C12"),
})
CHECKS.update({
 "C03": dict(cat="fault_enumeration", tech="real multi-step operations AST-rewritten into steppable twins on the SQLite stack; the crash step is a symbolic int decided by CrossHair/z3; instant invariant + recovery liveness oracle",
   text="For every actor role (runner claiming, worker incl. retry, reroute on concurrency control, kill-and-reroute on stop, pending / running recovery task) and every crash step within the bound (incl. the fault-free run) the check kills the actor after that step, evaluates the 'queued while available or held by an owner' invariant and then runs the real recovery tasks and a surviving worker until quiescent; every accepted invocation must become final with its body executed. The crash windows the code really has are listed known findings; any other window is a violation.",
   note="Bounds: one crash, steps 0..140 (line / SQL-statement granularity), 1-2 invocations per scenario, SQLite stack only. Crash = generator abandoned without unwinding + connection rollback. Survivors run sequentially.", ref="3/C03"),
 "C04": dict(cat="model_checking", tech="SQL WHERE clauses -> SMT (sqlpred, z3 Reals) vs spec; CrossHair on the real in-memory scan methods with symbolic real-valued state; solver-decided heartbeat histories on both backends; SCHED: recovery task twins vs a concurrently moving owner",
   text="The SQLite recovery scans and the active-runner query are shown equivalent (unsat) to the specification for every row / heartbeat table / clock / limit; the in-memory scans are confirmed against the same specification on a symbolic state; heartbeat-and-clock histories give the same selection on both backends as the specification; a recovery run interleaved with an owner that moves one of the listed invocations at any preemption point re-queues everything it took and never touches fresh work.",
   note="Bounds: 1 row + 2 heartbeat rows (SMT, unbounded reals); 2 invocations x 2 runners (mem scans); 4-op heartbeat histories; recovery run over 2-3 invocations with one concurrent owner step. Exact arithmetic (doubles differ by one rounding of now).", ref="3/C04"),
 "C05": dict(cat="model_checking", tech="SCHED: real set_invocation_result/exception twins vs a reader at a symbolic preemption point (CrossHair/z3), both backends; CrossHair on get_final_result for every status",
   text="At every preemption point of the worker's finishing sequence a fresh reader never sees SUCCESS/FAILED without the matching result/exception (same type and arguments), and never gets a value for a non-final status; get_final_result behaves per status x stored outcome on both backends. Canary: a worker that publishes the status first must be refuted.",
   note="Bounds: 1 worker + 1 reader, preemption point 0..40, 5 outcome kinds x padded/unpadded x 3 externalisation thresholds. Values come from a small concrete family (serializers are C code): value round trips themselves are not claimed.", ref="3/C05"),
 "C06": dict(cat="model_checking", tech="CrossHair/z3-decided op histories through every submission path on both real stacks vs an independent key function",
   text="For all bounded histories of submissions (single call, parallelize batch, second task with identical parameters), polls by two runners, starts, finishes and retries, in every mode x reroute option: never two RUNNING with the same key, a blocked invocation is finalised or re-queued per the option, different keys never block, the poll never raises; two runners polling and starting at the same time never block each other on different keys. Listed known findings (reproduced): the RETRY-blocked poll raises; two simultaneous runners on the same key both reach RUNNING.",
   note="Bounds: prefix [submit, poll+start] + 3 free ops over 11 letters (thorough: 4, with and without prefix); runners poll sequentially (simultaneous check-then-act of two runners is not covered).", ref="3/C06"),
 "C07": dict(cat="model_checking", tech="CrossHair/z3-decided submission/claim histories through the real task call path on both stacks vs a dictionary model",
   text="For all bounded histories (a symbolic subset of 4 key combinations submitted first, then free submissions/claims), every registration mode x raise option: a submission with the key of a still-REGISTERED invocation returns that invocation and creates nothing; at most one REGISTERED per key; KEYS+raise rejects differing non-key arguments without changing anything; DISABLED always creates a new invocation.",
   note="Bounds: 16 pre-state subsets x 2 free ops over 9 letters quick (3 thorough); 2x2 key values x 2 non-key values; spellings rotate. Argument values are concrete (serializer is C code).", ref="3/C07"),
 "C10": dict(cat="model_checking", tech="CrossHair/z3-decided request sequences on both real stacks with deferred history-writer stand-ins run in adversarial order",
   text="For all bounded sequences of status requests by two runners (accepted and refused) the flushed history, ordered by change time, is exactly REGISTERED followed by the successful changes, each naming the runner that made it; another invocation's history is untouched; writers may run late and in reversed/rotated order; a setter preempted by the next legal change of another actor still yields a correctly attributed lifecycle path.",
   note="Bounds: 2 free requests from REGISTERED, after [PENDING] and after [PENDING, RUNNING]; 14 statuses x 2 runners each. Order by the change time stored in the records; ordering as returned by get_history() under late writers is not claimed.", ref="3/C10"),
 "C11": dict(cat="model_checking", tech="CrossHair/z3-decided stop scenarios on the real ThreadRunner._on_stop with thread stand-ins; SCHED: stop request at a symbolic step of the real loop iteration twin",
   text="For every table of up to 3 claimed invocations (liveness, status at stop, behaviour while joined) and for a stop request at every step of a loop iteration, after the real on_stop every claimed invocation is final or available+queued+unowned; nothing stays PENDING/RUNNING/KILLED under the stopped runner. Part C: the stop request after every round of a whole-run simulation (real loop, run, result, on_stop twins). The join on a task waiting for a queued child (stop never completes) is a listed known finding, reproduced by the unit check, the simulation and a real-thread replay.",
   note="Threads are stand-ins (the claim is about stop bookkeeping). Loop part on the in-memory stack, 1-3 queued, 1-3 slots, step 0..70.", ref="3/C11"),
 "C13": dict(cat="model_checking", tech="pysym AST->SMT (z3 Ints) of CronCondition._is_satisfied_by with an integer croniter model validated against the real croniter; CrossHair-decided occurrence counts through the real trigger loop; SCHED claim race on both stores",
   text="Cron: for every poll instant, last execution and window/interval/tolerance setting the code's decision equals the rules (unsat), a tick fires at most once and never outside its window. Occurrences: single-condition and OR triggers launch once per occurrence with that occurrence's arguments, AND triggers only with all conditions pending, over 0-2 occurrences per condition and 1-2 iterations on both stores. Two concurrent claimers of a trigger run never both win; two concurrent evaluations of a cron condition with a previous execution on record fire exactly once (both stores).",
   note="Cron family */k, k in {1,2,5,15,30}, integer seconds; croniter itself trusted beyond the validated grid. The first-ever cron tick fired by two loops is a listed known finding (reproduced on both stores).", ref="3/C13"),
 "C14": dict(cat="model_checking", tech="CrossHair/z3-decided death patterns through the real start/loop-iteration/heartbeat code of the three process-based runners with process stand-ins",
   text="For every capacity, option and per-iteration death bitmask in the bound the pool returns to capacity (or the documented scale-up target), no dead worker stays tracked, and heartbeats are reported exactly for live workers.",
   note="Bounds: capacity 1..3, 3 death rounds + 2 settle iterations, queue 0..4. multiprocessing.Process/Manager are stand-ins: bookkeeping only.", ref="3/C14"),
 "C15": dict(cat="model_checking", tech="CrossHair symbolic execution of the size routing and of TaskId/CallId key parsing (symbolic strings/ints); solver-decided LRU op sequences and call spellings; bounded counterexample hunt for args-id injectivity",
   text="Size routing is exact for every content length / threshold / flag; equal content gives the same reference and a reference resolves to the content it was created from under every bounded serialize/resolve/purge/mutate sequence and cache size (reader in another process); TaskId/CallId keys round-trip for short strings and malformed keys are rejected; all spellings of a call give the same call id. Injectivity of the args-id byte stream is hunted, never counted as discharged.",
   note="Value round trips through the serializers (C code) are not covered. SHA-256 assumed collision-free. Same-process aliasing through the warm cache is a listed known finding.", ref="3/C15"),
 "C16": dict(cat="model_checking", tech="CrossHair/z3-decided differential op sequences: the same sequence on the real in-memory and SQLite stacks, return values and full read-outs compared",
   text="For every operation sequence up to the bound over three component alphabets (orchestrator incl. heartbeats, recovery scans, wait graph, auto-purge, pagination; state backend + broker + client data store; trigger store) both stacks give the same return values, errors and later observations.",
   note="Bounds: 3 ops quick / 4 thorough per alphabet (14 / 12 / 9 letters). Random long sequences (sampling) are not part of the claim. C01, C07, C08, C09, C10 add reference models.", ref="3/C16"),
 "C17": dict(cat="model_checking", tech="strsym: sanitize_table_prefix and delete_tables_with_prefix read from source and encoded over bounded character arrays (z3, SHA-256 uninterpreted); CrossHair-decided operation sequences on pairs of adversarial ids",
   text="Every table prefix is a bare SQL identifier for every id up to 32 characters over all of Unicode (unsat per length); no table of another application is selected by a component purge (unsat for |A|<=3, |B|<=26 under the no-hash-collision assumption; sat models are replayed with the real SHA-256 on one database file); operations on one app (incl. every purge) leave the other app's tables/observations unchanged for all ordered pairs of 12 adversarial ids on both stacks.",
   note="str.isdigit and SHA-256 are uninterpreted (pinned on ASCII / functional). Ids longer than the bound assumed to behave alike (the function is character-wise).", ref="3/C17"),
 "C18": dict(cat="model_checking", tech="CrossHair/z3-decided operation scripts and re-execution histories through the real DistributedInvocation.run on both state backends",
   text="For every 2-operation script over {random, utc_now, uuid, execute_task x2} and every history of 2-3 executions alternating between two workflows, in the same process image or a fresh one, the n-th value equals the first execution's, records are stored under the right workflow only, and sub-tasks are launched once per workflow and call.",
   note="Sequential alternation only (no concurrent threads). Fresh process image = the Task object's cached helper dropped.", ref="3/C18"),
 "C19": dict(cat="model_checking", tech="CrossHair/z3-decided task programs executed in sync mode and distributed on both stacks through a stand-in inline runner; outcomes, body counts and retry laws compared",
   text="For every program in the bound (3-attempt root script, max_retries 0..3, no child / single child / parallelized group with a 2-attempt child script, plain or direct task) sync mode and distributed execution on both stacks give the same value or exception (type and arguments), the same body execution counts and obey the three retry laws.",
   note="InlineRunner stand-in (persistent-process worker loop body, waiting runs it inline): the claim covers the orchestration code all runners share, not thread/process machinery. Children's counts compared only for succeeding programs (sibling order is unspecified).", ref="3/C19"),
 "C20": dict(cat="model_checking", tech="CrossHair symbolic execution of the real queue_view coroutine (unbounded symbolic limit); solver-decided parameters for every other GET handler run with real template rendering; full state dump before/after",
   text="The queue page leaves the queue content unchanged for every limit when all records exist and the limit covers the queue, and never loses a message whatever records are missing; every other GET route of the monitor, for prepared states x parameter choices on both stacks, leaves every table / the in-memory snapshot unchanged whether it renders or fails. The two ways the queue page reorders the queue are listed known findings.",
   note="Handlers other than queue_view run concretely after the solver picks the parameters from adversarial finite domains; oracle = dump of every SQLite table / curated in-memory snapshot.", ref="3/C20"),
})

# parts added after the second round of seeded changes (appended to the texts above)
EXTRA = {
 "C02": ("A runner that claims, releases (RETRY / REROUTED / KILLED+REROUTED) and claims again while another runner's request is in flight stays linearisable against the status table (canary: the lock-table entry dropped after every transition).",
         "Reclaim part: quick = the in-flight request is a claim by r1 or r2, thorough = any of the 14 statuses; 2 preemptions, slices 0..90."),
 "C05": ("A displaced worker (the invocation was recovered and completed by another runner) that finishes around the winner's outcome never leaves a final status without a readable outcome of one of the completed executions.",
         "Displaced-worker part: winner/stale outcome kinds 5 x 5, inline/externalised, first actor + 1 preemption 0..40, both backends."),
 "C07": ("Non-key argument values that are equal for Python's == but different call arguments (0/False/0.0, 1/True/1.0, '1') are told apart in every mode.",
         "Value family: 3 ops over 7 values + claim, every mode, both backends; the model compares (type, value)."),
 "C10": ("For changes made one after the other the history as returned by get_history() (ordered by the creation time of the history record) is in change order however late the writers run.",
         "datetime.now in base_state_backend is a strictly increasing stand-in (no ties); with a setter preempted between transition and record creation only the order by change time is claimed."),
 "C11": ("In the whole-run simulation a hang is attributed to the listed known finding only when the awaited child was still queued when the stop began; a stop that kills a child with a live thread and then waits for its parent is a violation.",
         "Simulation: 3 workloads x 1-2 slots, stop after 0..150 rounds (thorough 400), leaf bodies of 0/40/400 cooperative steps."),
 "C12": ("The runner -> position map is one-to-one for any list of active runners (creation-time ties, any list order), checked by CrossHair on the real calculate_runner_position and end to end on an instant grid.",
         "Positions: 2-4 runners, creation offsets 0..2 s each, 4 list orders."),
 "C13": ("In the first-tick region of the cron race only the listed outcome (both loops fire) is tolerated: nobody firing or an error is a violation.", ""),
 "C15": ("Values built from a bounded grammar (up to 3 nested list/dict wrappers around 13 leaf kinds incl. Enum, IntEnum, StrEnum, builtin and client exceptions, JsonSerializable objects) come back unchanged (type-exact) through JsonSerializer, PickleSerializer and JsonPickleSerializer on every storage path (serializer, client data store read by another process, argument loaded by a worker, result read by the client), inline and externalised, on both backends.",
         "Value grammar: 5^3 wrapper chains x 13 leaves; the solver decides the shape, the real serializers (C code inside json/pickle) run concretely."),
 "C16": ("The trigger-store alphabet includes live claims after expired ones and claim_trigger_execution.", ""),
 "C17": ("Two different ids never get the same storage prefix (unsat for ids of 0..9 arbitrary code points each), the no-collision assumption being stated on what the function feeds to the hash.", ""),
 "C18": ("Two different workflows inside execute_task for the identical sub-call at the same time (line-level interleaving of the real run / execute_task twins) each launch and record their own sub-invocation, and a sequential replay gets it back.",
         "Concurrent part: first actor + 2 preemptions 0..35, both backends; locks and futures of the executor module are cooperative stand-ins."),
 "C19": ("With two runners interleaved at line / statement level a body that always raises a retriable exception is executed exactly max_retries+1 times and ends FAILED, for a top-level invocation and for an awaited child (offered through the blocking list).",
         "Retry race: quick max_retries=1, holder first, 2 preemptions 0..45; thorough max_retries 1-2, either actor first, 0..80."),
 "C20": ("The queue page leaves ids, multiplicities and order unchanged also when the same id is queued more than once.", ""),
}
# parts added during the third round of seeded changes
EXTRA3 = {
 "C01": "Two requests in flight on an owned invocation (owner's request vs another runner's, line / statement-level interleaving, harness shared with C02) end in one of the two serial outcomes of the specification table: a final status reached by one is never left by the other.",
 "C02": "From PENDING owned by r1: recovery takes the invocation away and r2 claims it while r1's own start is in flight (ABA on status alone is refuted).",
 "C03": "Without any crash: a recovery run racing with a live owner strands nothing (C04's scenario, stranding outcomes only).",
 "C04": "A looping parent runner reports heartbeats for its live children at every iteration: recovery never selects a live child's RUNNING invocation and selects a dead child's once the timeout has passed (runner level, process stand-ins).",
 "C06": "One runner whose single poll feeds several worker threads (same-key invocations awaited by a parent and plain queue entries): never two RUNNING.",
 "C08": "On SQLite the op sequences are spread over two broker instances on one database and every instance reports the exact queue length after every op.",
 "C10": "A parallelize batch registered while the history writers are late gives every invocation exactly its own REGISTERED entry.",
 "C13": "Status, result and exception occurrences produced by the real reporting paths (single calls, a parallelize batch, executions that succeed or raise) each launch their dependent task exactly once with arguments from that occurrence.",
 "C16": "A second state-backend alphabet covers the time-range iterators (shared instants, pages of 1 / 2), runner contexts and workflow bookkeeping.",
 "C17": "The sibling application's app info (get_app_info / discovery) is among the observations that an operation on the other application must not change.",
 "C18": "The deterministic values (random, uuid) that two interleaved workflows record are those of the sequential run of the same two workflows (closures of the executor are interleaved at line level).",
 "C20": "Scenes with long inline / externalised argument values; handlers that take a call id are called with existing call ids.",
}
for _k, _t in EXTRA3.items():
    CHECKS[_k]["text"] += " " + _t
for _k, (_t, _n) in EXTRA.items():
    CHECKS[_k]["text"] += " " + _t
    if _n:
        CHECKS[_k]["note"] += " " + _n

NA = {}
def main():
    props=[json.loads(l)["id"] for l in open("properties.jsonl")]
    checks=[]
    for pid,c in CHECKS.items():
        checks.append({"property_id":pid,"quick_cmd":f"./vf check {pid} --tier quick","thorough_cmd":f"./vf check {pid} --tier thorough",
          "evidence_file":f"/verif/evidence/{pid}.json","replay_cmd_template":"./vf replay {path}","engine":"vf",
          "level_claimed":{"category":c["cat"],"text":c["text"],"design_ref":c["ref"]},"level_note":c["note"],"technique":c["tech"]})
    na=[{"property_id":p,"reason":NA.get(p,"check not built yet in this session (work in progress; see DESIGN.md section 3)")} for p in props if p not in CHECKS]
    m={"version":1,"setup_cmd":"./vf ensure-env",
       "hooks":{"guard":"PYNENC_VERIF","enable":"no source hooks: all instrumentation is run-time AST rewriting / monkeypatching from /verif (env PYNENC_VERIF=1 is set by ./vf but nothing in /repo reads it)",
                "baseline_off_cmd":"cd /repo && /venv/bin/python -m pytest -ra -q -p no:cacheprovider --timeout=900 --continue-on-collection-errors","source_commits":[],"add_only":True},
       "engines":[{"name":"vf","path":"/verif/vf","serves_properties":list(CHECKS),"kind_free_text":"CrossHair (symbolic execution with z3) on the real functions; pysym AST->SMT (z3, cvc5 cross-check); SQL predicate -> SMT; coop scheduler with symbolic preemption points"}],
       "checks":checks,"not_applicable":na,
       "notes":"Exit codes of ./vf check: 0 ok, 1 replayed unlisted violation (VIOLATION line), 3 harness error / inconclusive verify obligation. Known findings: /verif/known_findings.json."}
    json.dump(m,open("MANIFEST.json","w"),indent=1)
if __name__=="__main__": main()
