#!/usr/bin/env python3
"""Regenerates MANIFEST.json from the table below (kept in one place so it is always valid)."""
import json, sys
CHECKS = {
 "C01": dict(cat="model_checking", tech="CrossHair symbolic execution (z3) of the real transition function and both orchestrators' set_invocation_status vs an independent table; 1-step induction from arbitrary (status, owner)",
   text="Bounded symbolic check: for every current status (15 incl. none), every owner/requester string up to the length bound (any Unicode) and every requested status, the real status_record_transition and the real set_invocation_status of MemOrchestrator and SQLiteOrchestrator agree with an independent specification table; refused requests leave record/index/row untouched; 2-step (thorough 3-step) sequences cross-check the induction. Every verify obligation must come back 'Confirmed over all paths'.",
   note="Bounds: strings len<=1 quick / <=2 thorough; SQLite dims finite (4 owners x 3 requesters). Stubs: sync history threads, recorder for add_history/trigger in the symbolic-string variant, counter clock. Trusted: CrossHair 0.0.110 + z3, the spec table transcribed from the docs.", ref="3/C01"),
}
CHECKS.update({
 "C02": dict(cat="model_checking", tech="real transition/poll methods AST-rewritten into steppable generators; preemption points, first actor and scenario data are symbolic ints decided by CrossHair/z3; linearisability oracle from the independent status table",
   text="Bounded symbolic schedule exploration on the real code: two concurrent claims of one invocation (both backends, every available start status) are linearisable and never both succeed; two pollers running the real get_invocations_to_run over queues with duplicate ids / blocking-priority entries never receive the same invocation and never raise. Canaries (a lock that never blocks; BEGIN IMMEDIATE removed from the AST) must be refuted within the same bounds.",
   note="Bounds: 2 actors; quick: 2 preemptions (claims) / 1 preemption (pollers), thorough one more; slice lengths cover all yield points. Granularity: source line (mem) / SQL statement (SQLite, real sqlite3 with timeout=0). Stubs: CoopLock for threading locks, sync history threads, counter clock.", ref="3/C02"),
 "C08": dict(cat="model_checking", tech="CrossHair/z3-decided op-code sequences on the real MemBroker and SQLiteBroker vs a list model",
   text="For every op sequence up to the length bound over 9 op letters (route single/batch with repeats, retrieve, count, purge) both real brokers agree with a FIFO list model after every op, and draining returns exactly the routed-but-not-retrieved messages in order.",
   note="Bounds: length<=4 quick, <=5 thorough; 3 ids. After the solver decides the op codes the real methods run concretely. Same-millisecond ordering on SQLite is observed, not controlled.", ref="3/C08"),
 "C09": dict(cat="model_checking", tech="CrossHair/z3-decided histories + inductive step from an arbitrary symbolic edge relation on the real blocking-control implementations vs a reference wait graph",
   text="For all histories up to the bound of wait declarations, claims and completions over 3 ids, the blocking set reported by both real implementations equals the reference definition (for limits 1, 2 and 10) and nothing stays recorded as waiting on a finished id; on the in-memory structure an inductive step from every 3-id edge relation covers histories of any length.",
   note="Bounds: 3 ids, histories<=3 quick / 4 thorough, 512 pre-states x 15 ops. The single-slot thread-runner part is covered at mechanism level only (see DESIGN).", ref="3/C09"),
 "C12": dict(cat="model_checking", tech="AST-to-SMT translation (pysym) of the current source of calculate_time_slot/is_runner_in_time_slot/can_run_atomic_service; z3 over Reals and over IEEE-754 doubles (QF_FP), cvc5 cross-check",
   text="For each runner count n in the bound and all position pairs, the solver shows (unsat) that no instant authorises two runners, windows are non-empty and inside the cycle, consecutive windows are separated by the margin when it fits (exact arithmetic), and authorisation coincides with the documented window; the disjointness and non-emptiness claims are also decided in double-precision arithmetic. Every sat model is replayed on the real functions.",
   note="Bounds: real n<=8 quick/16 thorough; fp64 n<=4 quick/8 thorough, I in [0.001,1e5] min, margin in [0,1e5]. t mod cycle is abstracted by its exact image [0,cycle). Translator validated against the real function on a concrete grid each run.", ref="3/C12"),
})
NA = {}
def main():
    props=[json.loads(l)["id"] for l in open("properties.jsonl")]
    checks=[]
    for pid,c in CHECKS.items():
        checks.append({"property_id":pid,"quick_cmd":f"./vf check {pid} --tier quick","thorough_cmd":f"./vf check {pid} --tier thorough",
          "evidence_file":f"/verif/evidence/{pid}.json","replay_cmd_template":"./vf replay {path}","engine":"vf",
          "level_claimed":{"category":c["cat"],"text":c["text"],"design_ref":c["ref"]},"level_note":c["note"],"technique":c["tech"]})
    na=[{"property_id":p,"reason":NA.get(p,"check not built yet in this session (work in progress; see DESIGN.md section 3)")} for p in props if p not in CHECKS]
    m={"version":1,"setup_cmd":"./vf ensure-env",
       "hooks":{"guard":"PYNENC_VERIF","enable":"no source hooks: all instrumentation is run-time AST rewriting / monkeypatching from /verif (env PYNENC_VERIF=1 is set by ./vf but nothing in /repo reads it)",
                "baseline_off_cmd":"cd /repo && /venv/bin/python -m pytest -ra -q -p no:cacheprovider --timeout=900 --continue-on-collection-errors","source_commits":[],"add_only":True},
       "engines":[{"name":"vf","path":"/verif/vf","serves_properties":list(CHECKS),"kind_free_text":"CrossHair (symbolic execution with z3) on the real functions; pysym AST->SMT (z3, cvc5 cross-check); SQL predicate -> SMT; coop scheduler with symbolic preemption points"}],
       "checks":checks,"not_applicable":na,
       "notes":"Exit codes of ./vf check: 0 ok, 1 replayed unlisted violation (VIOLATION line), 3 harness error / inconclusive verify obligation. Known findings: /verif/known_findings.json."}
    json.dump(m,open("MANIFEST.json","w"),indent=1)
if __name__=="__main__": main()
