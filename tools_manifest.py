#!/usr/bin/env python3
"""Regenerates MANIFEST.json from the table below (kept in one place so it is always valid)."""
import json, sys
CHECKS = {
 "C01": dict(cat="model_checking", tech="CrossHair symbolic execution (z3) of the real transition function and both orchestrators' set_invocation_status vs an independent table; 1-step induction from arbitrary (status, owner)",
   text="Bounded symbolic check: for every current status (15 incl. none), every owner/requester string up to the length bound (any Unicode) and every requested status, the real status_record_transition and the real set_invocation_status of MemOrchestrator and SQLiteOrchestrator agree with an independent specification table; refused requests leave record/index/row untouched; 2-step (thorough 3-step) sequences cross-check the induction. Every verify obligation must come back 'Confirmed over all paths'.",
   note="Bounds: strings len<=1 quick / <=2 thorough; SQLite dims finite (4 owners x 3 requesters). Stubs: sync history threads, recorder for add_history/trigger in the symbolic-string variant, counter clock. Trusted: CrossHair 0.0.110 + z3, the spec table transcribed from the docs.", ref="3/C01"),
}
NA = {}
def main():
    props=[json.loads(l)["id"] for l in open("properties.jsonl")]
    checks=[]
    for pid,c in CHECKS.items():
        checks.append({"property_id":pid,"quick_cmd":f"./vf check {pid} --tier quick","thorough_cmd":f"./vf check {pid} --tier thorough",
          "evidence_file":f"/verif/evidence/{pid}.json","replay_cmd_template":"./vf replay {path}","engine":"vf",
          "level_claimed":{"category":c["cat"],"text":c["text"],"design_ref":c["ref"]},"level_note":c["note"],"technique":c["tech"]})
    na=[{"property_id":p,"reason":NA.get(p,"check not built yet in this session (work in progress; see DESIGN.md section 3)")} for p in props if p not in CHECKS]
    m={"version":1,"setup_cmd":"./vf ensure-env",
       "hooks":{"guard":"PYNENC_VERIF","enable":"no source hooks: all instrumentation is run-time AST rewriting / monkeypatching from /verif (env PYNENC_VERIF=1 is set by ./vf but nothing in /repo reads it)",
                "baseline_off_cmd":"cd /repo && /venv/bin/python -m pytest -ra -q -p no:cacheprovider --timeout=900 --continue-on-collection-errors","source_commits":[],"add_only":True},
       "engines":[{"name":"vf","path":"/verif/vf","serves_properties":list(CHECKS),"kind_free_text":"CrossHair (symbolic execution with z3) on the real functions; pysym AST->SMT (z3, cvc5 cross-check); SQL predicate -> SMT; coop scheduler with symbolic preemption points"}],
       "checks":checks,"not_applicable":na,
       "notes":"Exit codes of ./vf check: 0 ok, 1 replayed unlisted violation (VIOLATION line), 3 harness error / inconclusive verify obligation. Known findings: /verif/known_findings.json."}
    json.dump(m,open("MANIFEST.json","w"),indent=1)
if __name__=="__main__": main()
